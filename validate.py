#!/opt/veriftools/pyvenv/bin/python3
import json,jsonschema,sys,glob
jsonschema.validate(json.load(open('/verif/MANIFEST.json')),json.load(open('/root/.vp/MANIFEST.schema.json')))
es=json.load(open('/root/.vp/EVIDENCE.schema.json'))
for f in sorted(glob.glob('/verif/evidence/*.json')):
    jsonschema.validate(json.load(open(f)),es)
    print('ok',f)
m=json.load(open('/verif/MANIFEST.json'))
ids={c['property_id'] for c in m['checks']}|{n['property_id'] for n in m.get('not_applicable',[])}
props={json.loads(l)['id'] for l in open('/verif/properties.jsonl')}
assert ids==props,(props-ids,ids-props)
print('manifest ok; claimed:',sorted(c['property_id'] for c in m['checks']))
