#!/usr/bin/env python3
# Regenerates MANIFEST.json from the table below (claimed checks) and properties.jsonl.
import json
T="bounded symbolic execution of go/ssa + SMT (z3); counterexamples replayed"
C={
"C01":("model_checking","All histories of K steps (deliver/ack now, late, repeated; reserved-key and non-document events; saves that succeed, are rejected, or persist only a subset of vBuckets) are explored symbolically over the real listen/waitAndForward/setOffset/checkpoint.Save/Load SSA with fully symbolic 64-bit positions; every document handed to the store and every durable document at the crash point is decided by the solver to be the 4-tuple of a position settled before the save began; a restart resumes at that document.","V=2, K=4 (quick)/5 (thorough); cumulative-acknowledgement reading; store writes only dirty vBuckets; csmap model; JSON bytes outside."),
"C04":("model_checking","C04_step is an inductive step from an arbitrary pre-state (range ends, ids, seqnos, presence and dirty marks all symbolic): one setOffset yields max(old,new), tracker/dirty effects exactly as stated, nothing touched outside the assigned range. C04_perm replays K delivered events acknowledged in every order with repetitions.","2 tracked vBuckets in the step; K=3/4 events, 4/6 ack steps in the history; concurrent-ack schedules: C04_par (not yet built); csmap model."),
"C05":("model_checking","All K-step histories of deliveries, acknowledgements, reserved/non-document events and succeeding or rejected saves over the real stream/checkpoint SSA: after each successful save the solver decides that the durable document of every advanced vBucket equals the position tracked when the save began, that a rejected save forgets nothing, and that an idle save writes nothing.","V=2, K=4/5 plus closing save; sequential (the ack-vs-in-flight-save schedules are not decided by this harness); one open known finding (repeated ack of the tracked event causes one redundant identical write)."),
"C09":("model_checking","ChunkSlice's real SSA is executed with the input length N symbolic (T..1024) for every group size T up to the tier bound; every Go slice bounds check and the partition assertions (non-empty, contiguous ascending, exact cover, sizes within one, larger first, purity) are solver-decided for all N at once.","T<=20 quick / 48 thorough (loop bound must be concrete); N fully symbolic; vBucketDiscovery.Get indexing: C09_get (pending)."),
"C18":("proof","Every assertion of the order harnesses is an SMT proof obligation over four fully symbolic 64-bit ints per version (no bound); the solver returns unsat for the negation of each on every feasible path of the real Equal/Higher/Lower SSA.","Trusted: gosym interpreter/encoder, go/ssa v0.29.0, z3 4.8.12. Gate call sites in newDcp need a live cluster (outside)."),
}
props=[json.loads(l) for l in open('/verif/properties.jsonl')]
checks=[]
for p in props:
    i=p['id']
    if i not in C: continue
    lvl,text,note=C[i]
    checks.append({"property_id":i,"quick_cmd":f"./vcheck run {i} --tier quick","thorough_cmd":f"./vcheck run {i} --tier thorough",
      "evidence_file":f"/verif/evidence/{i}.json","replay_cmd_template":"./vcheck replay {path}","engine":"gosym",
      "level_claimed":{"category":lvl,"text":text,"design_ref":f"DESIGN.md §5 {i}"},"level_note":note,"technique":T})
NA={}
na=[{"property_id":p['id'],"reason":NA.get(p['id'],"check under construction in this session (engine built, harness pending)")} for p in props if p['id'] not in C]
m={"version":1,"setup_cmd":"./vcheck setup",
 "hooks":{"guard":"verif","enable":"no source hooks: harnesses are in-package test files injected through go/packages overlays (engine) and `go test -overlay` (native replay)","baseline_off_cmd":"cd /repo && go test -vet=off -count=1 ./...","source_commits":[],"add_only":True},
 "engines":[{"name":"gosym","path":"/verif/gosym","serves_properties":sorted(C),"kind_free_text":"symbolic executor for go/ssa with decision-replay path exploration, SMT-LIB2 over a z3 pipe, engine threads + virtual clock"}],
 "checks":checks,"not_applicable":na,"notes":"see DESIGN.md; genuine-defect repair in /repo: f56d67a (fix: raise the save flag whenever a vBucket is marked dirty)"}
json.dump(m,open('/verif/MANIFEST.json','w'),indent=1)
