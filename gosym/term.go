package main

// Hash-consed SMT terms with constant folding.
//
// Sorts: Bool, bit-vectors of width 1..64, Float64 (IEEE binary64).
// Every constructor folds constants, so concrete code never reaches the solver.

import (
	"fmt"
	"math"
	"math/bits"
	"strings"
)

type SortKind uint8

const (
	SBool SortKind = iota
	SBV
	SFP
)

type Sort struct {
	K SortKind
	W uint8 // bit-vector width
}

var BoolSort = Sort{SBool, 0}
var FPSort = Sort{SFP, 64}

func BV(w int) Sort { return Sort{SBV, uint8(w)} }

func (s Sort) String() string {
	switch s.K {
	case SBool:
		return "Bool"
	case SBV:
		return fmt.Sprintf("(_ BitVec %d)", s.W)
	default:
		return "(_ FloatingPoint 11 53)"
	}
}

type Op uint8

const (
	OConst Op = iota
	OVar
	ONot
	OAnd
	OOr
	OEq
	OIte
	OBvAdd
	OBvSub
	OBvMul
	OBvUDiv
	OBvSDiv
	OBvURem
	OBvSRem
	OBvAnd
	OBvOr
	OBvXor
	OBvNot
	OBvNeg
	OBvShl
	OBvLshr
	OBvAshr
	OBvUlt
	OBvUle
	OBvSlt
	OBvSle
	OZext  // aux = new width
	OSext  // aux = new width
	OExtr  // aux = hi, aux2 = lo
	OFpAdd // RNE
	OFpSub
	OFpMul
	OFpDiv
	OFpNeg
	OFpLt
	OFpLe
	OFpEq    // IEEE equality
	OFpFromU // unsigned bv -> fp (RNE)
	OFpFromS // signed bv -> fp (RNE)
	OFpToS   // fp -> signed bv (RTZ); aux = width
	OFpToU   // fp -> unsigned bv (RTZ); aux = width
	OFpIsNaN
)

var opNames = map[Op]string{
	ONot: "not", OAnd: "and", OOr: "or", OEq: "=", OIte: "ite",
	OBvAdd: "bvadd", OBvSub: "bvsub", OBvMul: "bvmul", OBvUDiv: "bvudiv", OBvSDiv: "bvsdiv",
	OBvURem: "bvurem", OBvSRem: "bvsrem", OBvAnd: "bvand", OBvOr: "bvor", OBvXor: "bvxor",
	OBvNot: "bvnot", OBvNeg: "bvneg", OBvShl: "bvshl", OBvLshr: "bvlshr", OBvAshr: "bvashr",
	OBvUlt: "bvult", OBvUle: "bvule", OBvSlt: "bvslt", OBvSle: "bvsle",
	OFpAdd: "fp.add RNE", OFpSub: "fp.sub RNE", OFpMul: "fp.mul RNE", OFpDiv: "fp.div RNE",
	OFpNeg: "fp.neg", OFpLt: "fp.lt", OFpLe: "fp.leq", OFpEq: "fp.eq", OFpIsNaN: "fp.isNaN",
}

type Term struct {
	Op   Op
	S    Sort
	Args []*Term
	C    uint64 // constant payload (bv value, bool 0/1, fp bits)
	Name string // variable name
	Aux  int
	Aux2 int
	ID   int
}

type termKey struct {
	op         Op
	s          Sort
	a0, a1, a2 int
	c          uint64
	name       string
	aux, aux2  int
}

// TermTable interns terms. One per machine (worker); not thread-safe.
type TermTable struct {
	tab   map[termKey]*Term
	next  int
	True  *Term
	False *Term
}

func NewTermTable() *TermTable {
	tt := &TermTable{tab: map[termKey]*Term{}}
	tt.True = tt.mk(OConst, BoolSort, nil, 1, "", 0, 0)
	tt.False = tt.mk(OConst, BoolSort, nil, 0, "", 0, 0)
	return tt
}

func (tt *TermTable) mk(op Op, s Sort, args []*Term, c uint64, name string, aux, aux2 int) *Term {
	k := termKey{op: op, s: s, c: c, name: name, aux: aux, aux2: aux2, a0: -1, a1: -1, a2: -1}
	if len(args) > 0 {
		k.a0 = args[0].ID
	}
	if len(args) > 1 {
		k.a1 = args[1].ID
	}
	if len(args) > 2 {
		k.a2 = args[2].ID
	}
	if len(args) > 3 {
		panic("term arity")
	}
	if t, ok := tt.tab[k]; ok {
		return t
	}
	t := &Term{Op: op, S: s, Args: args, C: c, Name: name, Aux: aux, Aux2: aux2, ID: tt.next}
	tt.next++
	tt.tab[k] = t
	return t
}

func mask(w uint8) uint64 {
	if w >= 64 {
		return ^uint64(0)
	}
	return (uint64(1) << w) - 1
}

func (t *Term) IsConst() bool { return t.Op == OConst }
func (t *Term) IsTrue() bool  { return t.Op == OConst && t.S.K == SBool && t.C == 1 }
func (t *Term) IsFalse() bool { return t.Op == OConst && t.S.K == SBool && t.C == 0 }

// signed value of a constant bv
func (t *Term) SVal() int64 {
	w := t.S.W
	v := t.C
	if w < 64 && v&(1<<(w-1)) != 0 {
		v |= ^mask(w)
	}
	return int64(v)
}

func (tt *TermTable) Bool(b bool) *Term {
	if b {
		return tt.True
	}
	return tt.False
}

func (tt *TermTable) Const(w int, v uint64) *Term {
	return tt.mk(OConst, BV(w), nil, v&mask(uint8(w)), "", 0, 0)
}

func (tt *TermTable) FPConst(f float64) *Term {
	return tt.mk(OConst, FPSort, nil, math.Float64bits(f), "", 0, 0)
}

func (tt *TermTable) Var(name string, s Sort) *Term {
	return tt.mk(OVar, s, nil, 0, name, 0, 0)
}

func (tt *TermTable) Not(a *Term) *Term {
	if a.IsConst() {
		return tt.Bool(a.C == 0)
	}
	if a.Op == ONot {
		return a.Args[0]
	}
	return tt.mk(ONot, BoolSort, []*Term{a}, 0, "", 0, 0)
}

func (tt *TermTable) And(a, b *Term) *Term {
	if a.IsConst() {
		if a.C == 0 {
			return tt.False
		}
		return b
	}
	if b.IsConst() {
		if b.C == 0 {
			return tt.False
		}
		return a
	}
	if a == b {
		return a
	}
	return tt.mk(OAnd, BoolSort, []*Term{a, b}, 0, "", 0, 0)
}

func (tt *TermTable) Or(a, b *Term) *Term {
	if a.IsConst() {
		if a.C == 1 {
			return tt.True
		}
		return b
	}
	if b.IsConst() {
		if b.C == 1 {
			return tt.True
		}
		return a
	}
	if a == b {
		return a
	}
	return tt.mk(OOr, BoolSort, []*Term{a, b}, 0, "", 0, 0)
}

func (tt *TermTable) Eq(a, b *Term) *Term {
	if a.S != b.S {
		panic(fmt.Sprintf("Eq sort mismatch %v %v", a.S, b.S))
	}
	if a == b && a.S.K != SFP {
		return tt.True
	}
	if a.IsConst() && b.IsConst() && a.S.K != SFP {
		return tt.Bool(a.C == b.C)
	}
	if a.S.K == SBool {
		if a.IsConst() {
			if a.C == 1 {
				return b
			}
			return tt.Not(b)
		}
		if b.IsConst() {
			if b.C == 1 {
				return a
			}
			return tt.Not(a)
		}
	}
	if a.ID > b.ID {
		a, b = b, a
	}
	return tt.mk(OEq, BoolSort, []*Term{a, b}, 0, "", 0, 0)
}

func (tt *TermTable) Ite(c, a, b *Term) *Term {
	if c.IsConst() {
		if c.C == 1 {
			return a
		}
		return b
	}
	if a == b {
		return a
	}
	if a.S.K == SBool {
		if a.IsTrue() && b.IsFalse() {
			return c
		}
		if a.IsFalse() && b.IsTrue() {
			return tt.Not(c)
		}
	}
	return tt.mk(OIte, a.S, []*Term{c, a, b}, 0, "", 0, 0)
}

func sext(v uint64, w uint8) int64 {
	if w < 64 && v&(1<<(w-1)) != 0 {
		v |= ^mask(w)
	}
	return int64(v)
}

// BvBin builds a binary bit-vector operation.
func (tt *TermTable) BvBin(op Op, a, b *Term) *Term {
	if a.S != b.S || a.S.K != SBV {
		panic(fmt.Sprintf("BvBin sort mismatch %v %v op %v", a.S, b.S, opNames[op]))
	}
	w := a.S.W
	if a.IsConst() && b.IsConst() {
		x, y := a.C, b.C
		var r uint64
		switch op {
		case OBvAdd:
			r = x + y
		case OBvSub:
			r = x - y
		case OBvMul:
			r = x * y
		case OBvUDiv:
			if y == 0 {
				r = mask(w)
			} else {
				r = x / y
			}
		case OBvURem:
			if y == 0 {
				r = x
			} else {
				r = x % y
			}
		case OBvSDiv:
			sx, sy := sext(x, w), sext(y, w)
			if sy == 0 {
				if sx < 0 {
					r = 1
				} else {
					r = mask(w)
				}
			} else if sy == -1 {
				r = uint64(-sx)
			} else {
				r = uint64(sx / sy)
			}
		case OBvSRem:
			sx, sy := sext(x, w), sext(y, w)
			if sy == 0 {
				r = x
			} else if sy == -1 {
				r = 0
			} else {
				r = uint64(sx % sy)
			}
		case OBvAnd:
			r = x & y
		case OBvOr:
			r = x | y
		case OBvXor:
			r = x ^ y
		case OBvShl:
			if y >= uint64(w) {
				r = 0
			} else {
				r = x << y
			}
		case OBvLshr:
			if y >= uint64(w) {
				r = 0
			} else {
				r = x >> y
			}
		case OBvAshr:
			sx := sext(x, w)
			if y >= uint64(w) {
				if sx < 0 {
					r = mask(w)
				} else {
					r = 0
				}
			} else {
				r = uint64(sx >> y)
			}
		default:
			panic("BvBin op")
		}
		return tt.Const(int(w), r)
	}
	// light identities
	switch op {
	case OBvAdd, OBvOr, OBvXor:
		if a.IsConst() && a.C == 0 {
			return b
		}
		if b.IsConst() && b.C == 0 {
			return a
		}
	case OBvSub, OBvShl, OBvLshr, OBvAshr:
		if b.IsConst() && b.C == 0 {
			return a
		}
		if op == OBvSub && a == b {
			return tt.Const(int(w), 0)
		}
	case OBvMul:
		if a.IsConst() && a.C == 1 {
			return b
		}
		if b.IsConst() && b.C == 1 {
			return a
		}
		if (a.IsConst() && a.C == 0) || (b.IsConst() && b.C == 0) {
			return tt.Const(int(w), 0)
		}
	case OBvAnd:
		if a == b {
			return a
		}
		if (a.IsConst() && a.C == 0) || (b.IsConst() && b.C == 0) {
			return tt.Const(int(w), 0)
		}
		if a.IsConst() && a.C == mask(w) {
			return b
		}
		if b.IsConst() && b.C == mask(w) {
			return a
		}
	}
	// commutative normalisation
	switch op {
	case OBvAdd, OBvMul, OBvAnd, OBvOr, OBvXor:
		if a.ID > b.ID {
			a, b = b, a
		}
	}
	return tt.mk(op, a.S, []*Term{a, b}, 0, "", 0, 0)
}

func (tt *TermTable) BvCmp(op Op, a, b *Term) *Term {
	if a.S != b.S || a.S.K != SBV {
		panic(fmt.Sprintf("BvCmp sort mismatch %v %v", a.S, b.S))
	}
	w := a.S.W
	if a.IsConst() && b.IsConst() {
		switch op {
		case OBvUlt:
			return tt.Bool(a.C < b.C)
		case OBvUle:
			return tt.Bool(a.C <= b.C)
		case OBvSlt:
			return tt.Bool(sext(a.C, w) < sext(b.C, w))
		case OBvSle:
			return tt.Bool(sext(a.C, w) <= sext(b.C, w))
		}
	}
	if a == b {
		return tt.Bool(op == OBvUle || op == OBvSle)
	}
	return tt.mk(op, BoolSort, []*Term{a, b}, 0, "", 0, 0)
}

func (tt *TermTable) BvNot(a *Term) *Term {
	if a.IsConst() {
		return tt.Const(int(a.S.W), ^a.C)
	}
	return tt.mk(OBvNot, a.S, []*Term{a}, 0, "", 0, 0)
}

func (tt *TermTable) BvNeg(a *Term) *Term {
	if a.IsConst() {
		return tt.Const(int(a.S.W), -a.C)
	}
	return tt.mk(OBvNeg, a.S, []*Term{a}, 0, "", 0, 0)
}

// Resize converts bit-vector a to width w, sign- or zero-extending or truncating.
func (tt *TermTable) Resize(a *Term, w int, signed bool) *Term {
	aw := int(a.S.W)
	if aw == w {
		return a
	}
	if a.IsConst() {
		if w < aw {
			return tt.Const(w, a.C)
		}
		if signed {
			return tt.Const(w, uint64(sext(a.C, a.S.W)))
		}
		return tt.Const(w, a.C)
	}
	if w < aw {
		return tt.mk(OExtr, BV(w), []*Term{a}, 0, "", w-1, 0)
	}
	if signed {
		return tt.mk(OSext, BV(w), []*Term{a}, 0, "", w, 0)
	}
	return tt.mk(OZext, BV(w), []*Term{a}, 0, "", w, 0)
}

func fpOf(t *Term) float64 { return math.Float64frombits(t.C) }

func (tt *TermTable) FpBin(op Op, a, b *Term) *Term {
	if a.IsConst() && b.IsConst() {
		x, y := fpOf(a), fpOf(b)
		switch op {
		case OFpAdd:
			return tt.FPConst(x + y)
		case OFpSub:
			return tt.FPConst(x - y)
		case OFpMul:
			return tt.FPConst(x * y)
		case OFpDiv:
			return tt.FPConst(x / y)
		}
	}
	return tt.mk(op, FPSort, []*Term{a, b}, 0, "", 0, 0)
}

// fpNonNeg: t is provably a non-NaN value >= +0 (possibly +inf).
func fpNonNeg(t *Term) bool {
	switch t.Op {
	case OConst:
		f := fpOf(t)
		return f >= 0 && !math.Signbit(f)
	case OFpFromU:
		return true
	case OIte:
		return fpNonNeg(t.Args[1]) && fpNonNeg(t.Args[2])
	case OFpAdd:
		return fpNonNeg(t.Args[0]) && fpNonNeg(t.Args[1])
	}
	return false
}

// fpNonNaN: t is provably not NaN.
func fpNonNaN(t *Term) bool {
	switch t.Op {
	case OConst:
		return !math.IsNaN(fpOf(t))
	case OFpFromU, OFpFromS:
		return true
	case OIte:
		return fpNonNaN(t.Args[1]) && fpNonNaN(t.Args[2])
	}
	return fpNonNeg(t)
}

func (tt *TermTable) FpCmp(op Op, a, b *Term) *Term {
	if a == b && fpNonNaN(a) {
		return tt.Bool(op == OFpEq || op == OFpLe)
	}
	if op == OFpLe && a.IsConst() && fpOf(a) == 0 && fpNonNeg(b) {
		return tt.True
	}
	if a.IsConst() && b.IsConst() {
		x, y := fpOf(a), fpOf(b)
		switch op {
		case OFpLt:
			return tt.Bool(x < y)
		case OFpLe:
			return tt.Bool(x <= y)
		case OFpEq:
			return tt.Bool(x == y)
		}
	}
	return tt.mk(op, BoolSort, []*Term{a, b}, 0, "", 0, 0)
}

func (tt *TermTable) FpNeg(a *Term) *Term {
	if a.IsConst() {
		return tt.FPConst(-fpOf(a))
	}
	return tt.mk(OFpNeg, FPSort, []*Term{a}, 0, "", 0, 0)
}

func (tt *TermTable) FpIsNaN(a *Term) *Term {
	if a.IsConst() {
		return tt.Bool(math.IsNaN(fpOf(a)))
	}
	return tt.mk(OFpIsNaN, BoolSort, []*Term{a}, 0, "", 0, 0)
}

func (tt *TermTable) FpFromBV(a *Term, signed bool) *Term {
	if a.IsConst() {
		if signed {
			return tt.FPConst(float64(sext(a.C, a.S.W)))
		}
		return tt.FPConst(float64(a.C))
	}
	if signed {
		return tt.mk(OFpFromS, FPSort, []*Term{a}, 0, "", 0, 0)
	}
	return tt.mk(OFpFromU, FPSort, []*Term{a}, 0, "", 0, 0)
}

// FpToBV converts with truncation toward zero. Out-of-range results are
// implementation-defined in Go; callers must guard or accept amd64 behaviour
// for constants (0x8000... for signed overflow).
func (tt *TermTable) FpToBV(a *Term, w int, signed bool) *Term {
	if a.IsConst() {
		f := fpOf(a)
		if signed {
			var r int64
			if math.IsNaN(f) || f >= 9.223372036854775807e18 || f < -9.223372036854775808e18 {
				r = math.MinInt64
			} else {
				r = int64(f)
			}
			return tt.Const(w, uint64(r))
		}
		var r uint64
		if math.IsNaN(f) || f < 0 || f >= 18446744073709551616.0 {
			r = 1 << 63
		} else {
			r = uint64(f)
		}
		return tt.Const(w, r)
	}
	if signed {
		return tt.mk(OFpToS, BV(w), []*Term{a}, 0, "", w, 0)
	}
	return tt.mk(OFpToU, BV(w), []*Term{a}, 0, "", w, 0)
}

// ---- SMT-LIB printing ----

func constSMT(t *Term) string {
	switch t.S.K {
	case SBool:
		if t.C == 1 {
			return "true"
		}
		return "false"
	case SBV:
		if t.S.W%4 == 0 {
			return fmt.Sprintf("#x%0*x", int(t.S.W)/4, t.C)
		}
		return fmt.Sprintf("(_ bv%d %d)", t.C, t.S.W)
	default:
		b := t.C
		sign := b >> 63
		exp := (b >> 52) & 0x7ff
		man := b & ((1 << 52) - 1)
		return fmt.Sprintf("(fp #b%d #b%011b #x%013x)", sign, exp, man)
	}
}

func refSMT(t *Term) string {
	switch t.Op {
	case OConst:
		return constSMT(t)
	case OVar:
		return "|" + t.Name + "|"
	}
	return fmt.Sprintf("n%d", t.ID)
}

// bodySMT prints the defining expression of a non-leaf term over references.
func bodySMT(t *Term) string {
	var sb strings.Builder
	switch t.Op {
	case OZext:
		fmt.Fprintf(&sb, "((_ zero_extend %d) %s)", t.Aux-int(t.Args[0].S.W), refSMT(t.Args[0]))
	case OSext:
		fmt.Fprintf(&sb, "((_ sign_extend %d) %s)", t.Aux-int(t.Args[0].S.W), refSMT(t.Args[0]))
	case OExtr:
		fmt.Fprintf(&sb, "((_ extract %d %d) %s)", t.Aux, t.Aux2, refSMT(t.Args[0]))
	case OFpFromU:
		fmt.Fprintf(&sb, "((_ to_fp_unsigned 11 53) RNE %s)", refSMT(t.Args[0]))
	case OFpFromS:
		fmt.Fprintf(&sb, "((_ to_fp 11 53) RNE %s)", refSMT(t.Args[0]))
	case OFpToS:
		fmt.Fprintf(&sb, "((_ fp.to_sbv %d) RTZ %s)", t.Aux, refSMT(t.Args[0]))
	case OFpToU:
		fmt.Fprintf(&sb, "((_ fp.to_ubv %d) RTZ %s)", t.Aux, refSMT(t.Args[0]))
	default:
		name, ok := opNames[t.Op]
		if !ok {
			panic(fmt.Sprintf("bodySMT: op %d", t.Op))
		}
		sb.WriteString("(")
		sb.WriteString(name)
		for _, a := range t.Args {
			sb.WriteString(" ")
			sb.WriteString(refSMT(a))
		}
		sb.WriteString(")")
	}
	return sb.String()
}

// String renders a term as a nested expression (for evidence / debugging).
func (t *Term) String() string {
	switch t.Op {
	case OConst:
		if t.S.K == SBV {
			return fmt.Sprintf("%d", t.C)
		}
		if t.S.K == SFP {
			return fmt.Sprintf("%g", fpOf(t))
		}
		return constSMT(t)
	case OVar:
		return t.Name
	}
	var parts []string
	for _, a := range t.Args {
		parts = append(parts, a.String())
	}
	n := opNames[t.Op]
	if n == "" {
		n = fmt.Sprintf("op%d[%d,%d]", t.Op, t.Aux, t.Aux2)
	}
	return "(" + n + " " + strings.Join(parts, " ") + ")"
}

var _ = bits.Len64
