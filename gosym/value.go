package main

// Value representation (boxed, after go/ssa/interp):
//
//   *Term            bool, all integer kinds, float64 (float32 unsupported)
//   Str              string: concrete length, one 8-bit term per byte
//   Ptr (*Value)     pointers; nil pointer is Ptr(nil)
//   Struct, Array    aggregates by value (copied on load/store)
//   Slice            []Value window on a backing array; nil slice is Slice(nil)
//   *SymSlice        slice with symbolic offset/len/cap and no materialised elements
//   Iface            interface value; nil interface has T == nil
//   *ssa.Function, *Closure, *ssa.Builtin, *Native   function values
//   *Map, *Chan      reference types; nil pointer = nil map/chan
//   Tuple            multiple results
//   *Opaque          engine-owned object (context, reflect.Value, timers ...)

import (
	"fmt"
	"go/types"
	"strings"

	"golang.org/x/tools/go/ssa"
)

type Value interface{}

type Ptr = *Value
type Str []*Term
type Struct []Value
type Array []Value
type Slice []Value
type Tuple []Value

type SymSlice struct {
	Off, Len, Cap *Term // 64-bit
	Elem          types.Type
}

type Iface struct {
	T types.Type
	V Value
}

type Closure struct {
	Fn  *ssa.Function
	Env []Value
}

// Native is an engine-implemented function value.
type Native struct {
	Name string
	Fn   func(m *Machine, args []Value) Value
}

type mapEntry struct {
	K, V Value
}

type Map struct {
	KeyT    types.Type
	Entries []*mapEntry
	// csmap model: keys whose shard lock is held by a thread running a SetIf callback
	heldKey map[uint64]*Thread
	heldAll *Thread // symbolic key: the whole map is held
}

// Opaque is an engine-owned object with a tag and free-form payload.
type Opaque struct {
	Tag  string
	Data interface{}
}

// Poison marks a value produced by a failed tolerant evaluation (package init).
type Poison struct{ Why string }

// ---- type helpers ----

func under(t types.Type) types.Type { return t.Underlying() }

func deref(t types.Type) types.Type {
	if p, ok := under(t).(*types.Pointer); ok {
		return p.Elem()
	}
	panic(fmt.Sprintf("deref: not a pointer: %v", t))
}

func basicInfo(t types.Type) (w int, signed bool, kind string) {
	b, ok := under(t).(*types.Basic)
	if !ok {
		return 0, false, ""
	}
	switch b.Kind() {
	case types.Bool, types.UntypedBool:
		return 0, false, "bool"
	case types.Int8:
		return 8, true, "int"
	case types.Int16:
		return 16, true, "int"
	case types.Int32, types.UntypedRune:
		return 32, true, "int"
	case types.Int64, types.Int, types.UntypedInt:
		return 64, true, "int"
	case types.Uint8:
		return 8, false, "int"
	case types.Uint16:
		return 16, false, "int"
	case types.Uint32:
		return 32, false, "int"
	case types.Uint64, types.Uint, types.Uintptr:
		return 64, false, "int"
	case types.Float64, types.UntypedFloat, types.Float32:
		return 64, true, "float"
	case types.String, types.UntypedString:
		return 0, false, "string"
	case types.UnsafePointer:
		return 0, false, "unsafe"
	case types.UntypedNil:
		return 0, false, "nil"
	}
	return 0, false, "other"
}

func (m *Machine) zero(t types.Type) Value {
	switch t := t.(type) {
	case *types.Basic:
		w, _, k := basicInfo(t)
		switch k {
		case "bool":
			return m.tt.False
		case "int":
			return m.tt.Const(w, 0)
		case "float":
			return m.tt.FPConst(0)
		case "string":
			return Str(nil)
		case "unsafe":
			return Ptr(nil)
		case "nil":
			panic("untyped nil has no zero value")
		}
		panic(fmt.Sprintf("zero: basic %v", t))
	case *types.Pointer:
		return Ptr(nil)
	case *types.Array:
		a := make(Array, t.Len())
		for i := range a {
			a[i] = m.zero(t.Elem())
		}
		return a
	case *types.Named:
		return m.zero(t.Underlying())
	case *types.Alias:
		return m.zero(types.Unalias(t))
	case *types.Interface:
		return Iface{}
	case *types.Slice:
		return Slice(nil)
	case *types.Struct:
		s := make(Struct, t.NumFields())
		for i := range s {
			s[i] = m.zero(t.Field(i).Type())
		}
		return s
	case *types.Tuple:
		if t.Len() == 1 {
			return m.zero(t.At(0).Type())
		}
		s := make(Tuple, t.Len())
		for i := range s {
			s[i] = m.zero(t.At(i).Type())
		}
		return s
	case *types.Chan:
		return (*Chan)(nil)
	case *types.Map:
		return (*Map)(nil)
	case *types.Signature:
		return (*ssa.Function)(nil)
	case *types.TypeParam:
		panic("zero of type parameter (generics must be instantiated)")
	}
	panic(fmt.Sprintf("zero: unexpected type %T %v", t, t))
}

// copyVal returns a copy of aggregates (value semantics); everything else is shared.
func copyVal(v Value) Value {
	switch v := v.(type) {
	case Struct:
		c := make(Struct, len(v))
		for i := range v {
			c[i] = copyVal(v[i])
		}
		return c
	case Array:
		c := make(Array, len(v))
		for i := range v {
			c[i] = copyVal(v[i])
		}
		return c
	}
	return v
}

func (m *Machine) load(p Ptr) Value {
	if p == nil {
		m.runtimePanic("invalid memory address or nil pointer dereference")
	}
	return copyVal(*p)
}

func (m *Machine) store(p Ptr, v Value) {
	if p == nil {
		m.runtimePanic("invalid memory address or nil pointer dereference")
	}
	// preserve identity of interior cells: copy element-wise into existing aggregates
	switch dst := (*p).(type) {
	case Struct:
		if src, ok := v.(Struct); ok && len(src) == len(dst) {
			for i := range dst {
				m.store(&dst[i], src[i])
			}
			return
		}
	case Array:
		if src, ok := v.(Array); ok && len(src) == len(dst) {
			for i := range dst {
				m.store(&dst[i], src[i])
			}
			return
		}
	}
	*p = copyVal(v)
}

// ---- strings ----

func (m *Machine) strOf(s string) Str {
	r := make(Str, len(s))
	for i := 0; i < len(s); i++ {
		r[i] = m.tt.Const(8, uint64(s[i]))
	}
	return r
}

// concrete returns the Go string if all bytes are constants.
func (s Str) concrete() (string, bool) {
	b := make([]byte, len(s))
	for i, t := range s {
		if !t.IsConst() {
			return "", false
		}
		b[i] = byte(t.C)
	}
	return string(b), true
}

func (s Str) String() string {
	var sb strings.Builder
	sb.WriteString("\"")
	for _, t := range s {
		if t.IsConst() {
			c := byte(t.C)
			if c >= 32 && c < 127 && c != '"' && c != '\\' {
				sb.WriteByte(c)
			} else {
				fmt.Fprintf(&sb, "\\x%02x", c)
			}
		} else {
			sb.WriteString("{" + t.String() + "}")
		}
	}
	sb.WriteString("\"")
	return sb.String()
}

func (m *Machine) strEq(a, b Str) *Term {
	if len(a) != len(b) {
		return m.tt.False
	}
	r := m.tt.True
	for i := range a {
		r = m.tt.And(r, m.tt.Eq(a[i], b[i]))
	}
	return r
}

// ---- equality ----

// equals implements Go's == for type t, returning a Bool term.
func (m *Machine) equals(t types.Type, x, y Value) *Term {
	switch x := x.(type) {
	case *Term:
		yt := y.(*Term)
		if x.S.K == SFP {
			return m.tt.FpCmp(OFpEq, x, yt)
		}
		return m.tt.Eq(x, yt)
	case Str:
		return m.strEq(x, y.(Str))
	case Ptr:
		return m.tt.Bool(x == y.(Ptr))
	case *Chan:
		return m.tt.Bool(x == y.(*Chan))
	case *Map:
		return m.tt.Bool(x == y.(*Map)) // only vs nil in well-typed code
	case Struct:
		ys := y.(Struct)
		st := under(t).(*types.Struct)
		r := m.tt.True
		for i := range x {
			if st.Field(i).Name() == "_" {
				continue
			}
			r = m.tt.And(r, m.equals(st.Field(i).Type(), x[i], ys[i]))
		}
		return r
	case Array:
		ya := y.(Array)
		et := under(t).(*types.Array).Elem()
		r := m.tt.True
		for i := range x {
			r = m.tt.And(r, m.equals(et, x[i], ya[i]))
		}
		return r
	case Iface:
		yi := y.(Iface)
		if x.T == nil || yi.T == nil {
			return m.tt.Bool(x.T == nil && yi.T == nil)
		}
		if !types.Identical(x.T, yi.T) {
			return m.tt.False
		}
		if !types.Comparable(x.T) {
			m.runtimePanic("comparing uncomparable type " + x.T.String())
		}
		return m.equals(x.T, x.V, yi.V)
	case *Opaque:
		yo, ok := y.(*Opaque)
		return m.tt.Bool(ok && x == yo)
	case Slice:
		// only comparable to nil
		return m.tt.Bool(x == nil && y.(Slice) == nil)
	case *ssa.Function, *Closure, *ssa.Builtin, *Native:
		return m.tt.Bool(isNilFunc(x) && isNilFunc(y))
	}
	panic(fmt.Sprintf("equals: unhandled %T", x))
}

func isNilFunc(v Value) bool {
	switch f := v.(type) {
	case *ssa.Function:
		return f == nil
	case *Closure:
		return f == nil
	case *Native:
		return f == nil
	}
	return false
}

// ---- maps ----

// mapFind returns the entry equal to key, forking on symbolic comparisons.
func (m *Machine) mapFind(mp *Map, key Value) *mapEntry {
	if mp == nil {
		return nil
	}
	for _, e := range mp.Entries {
		c := m.equals(mp.KeyT, e.K, key)
		if m.branch(c) {
			return e
		}
	}
	return nil
}

func (m *Machine) mapSet(mp *Map, key, v Value) {
	if mp == nil {
		m.runtimePanic("assignment to entry in nil map")
	}
	if e := m.mapFind(mp, key); e != nil {
		e.V = copyVal(v)
		return
	}
	mp.Entries = append(mp.Entries, &mapEntry{copyVal(key), copyVal(v)})
}

func (m *Machine) mapDelete(mp *Map, key Value) {
	if mp == nil {
		return
	}
	for i, e := range mp.Entries {
		c := m.equals(mp.KeyT, e.K, key)
		if m.branch(c) {
			mp.Entries = append(mp.Entries[:i:i], mp.Entries[i+1:]...)
			return
		}
	}
}

// ---- debug printing ----

func valString(v Value) string {
	switch v := v.(type) {
	case nil:
		return "<nil-value>"
	case *Term:
		return v.String()
	case Str:
		return v.String()
	case Ptr:
		if v == nil {
			return "nil"
		}
		return fmt.Sprintf("&%p", v)
	case Struct:
		parts := make([]string, len(v))
		for i := range v {
			parts[i] = valString(v[i])
		}
		return "{" + strings.Join(parts, ", ") + "}"
	case Array:
		parts := make([]string, len(v))
		for i := range v {
			parts[i] = valString(v[i])
		}
		return "[" + strings.Join(parts, ", ") + "]"
	case Slice:
		if v == nil {
			return "nil-slice"
		}
		parts := make([]string, len(v))
		for i := range v {
			parts[i] = valString(v[i])
		}
		return "[]{" + strings.Join(parts, ", ") + "}"
	case Iface:
		if v.T == nil {
			return "nil-iface"
		}
		return fmt.Sprintf("iface(%v: %s)", v.T, valString(v.V))
	case Tuple:
		parts := make([]string, len(v))
		for i := range v {
			parts[i] = valString(v[i])
		}
		return "(" + strings.Join(parts, ", ") + ")"
	case *ssa.Function:
		if v == nil {
			return "nil-func"
		}
		return v.String()
	case *Closure:
		return "closure(" + v.Fn.String() + ")"
	case *Opaque:
		return "opaque(" + v.Tag + ")"
	}
	return fmt.Sprintf("%T", v)
}
