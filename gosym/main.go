package main

import (
	"encoding/json"
	"flag"
	"fmt"
	"os"
	"path/filepath"
	"runtime"
	"sort"
	"strconv"
	"strings"
	"time"
)

type CheckSpec struct {
	Property    string        `json:"property"`
	Packages    []string      `json:"packages"`
	Level       string        `json:"level"`
	Harnesses   []HarnessSpec `json:"harnesses"`
	Assumptions []string      `json:"assumptions"`
	TrustedBase []string      `json:"trusted_base"`
	Stubs       []string      `json:"stubs"`
	Bounds      []string      `json:"bounds"`
	Outside     []string      `json:"outside"`
	Rule        string        `json:"rule"`
}

type KnownFinding struct {
	Property string `json:"property"`
	Harness  string `json:"harness"`
	Label    string `json:"label"`
	What     string `json:"what"`
	Status   string `json:"status"` // "open" (suppresses) or "fixed" (documentation only)
	Commit   string `json:"commit,omitempty"`
}

var (
	repoDir    = "/repo"
	verifDir   = "/verif"
	tierGlobal = "quick"
)

func main() {
	if len(os.Args) < 2 {
		fmt.Fprintln(os.Stderr, "usage: gosym check|list|replay ...")
		os.Exit(2)
	}
	switch os.Args[1] {
	case "check":
		os.Exit(cmdCheck(os.Args[2:]))
	case "replay":
		os.Exit(cmdReplay(os.Args[2:]))
	case "native":
		// gosym native <pkgdir> <replay.json> <expect>: run a harness natively; expect = "ok" (no assertion fails)
		if len(os.Args) < 5 {
			fmt.Fprintln(os.Stderr, "usage: gosym native <pkgdir> <replay.json> ok")
			os.Exit(2)
		}
		if v := os.Getenv("VERIF_DIR"); v != "" {
			verifDir = v
		}
		if v := os.Getenv("VERIF_REPO"); v != "" {
			repoDir = v
		}
		okRun, out := nativeRun(os.Args[2], os.Args[3])
		if okRun {
			fmt.Println("NATIVE-OK", os.Args[2], os.Args[3])
			os.Exit(0)
		}
		fmt.Println("NATIVE-MISMATCH", os.Args[2], os.Args[3])
		fmt.Println(out)
		os.Exit(2)
	default:
		fmt.Fprintln(os.Stderr, "unknown command")
		os.Exit(2)
	}
}

func envInt(name string, def int) int {
	if v := os.Getenv(name); v != "" {
		if n, err := strconv.Atoi(v); err == nil {
			return n
		}
	}
	return def
}

func loadSpec(path string) (*CheckSpec, error) {
	b, err := os.ReadFile(path)
	if err != nil {
		return nil, err
	}
	var s CheckSpec
	if err := json.Unmarshal(b, &s); err != nil {
		return nil, fmt.Errorf("%s: %v", path, err)
	}
	return &s, nil
}

func loadKnown() []KnownFinding {
	b, err := os.ReadFile(filepath.Join(verifDir, "KNOWN_FINDINGS.json"))
	if err != nil {
		return nil
	}
	var k struct {
		Findings []KnownFinding `json:"findings"`
	}
	if json.Unmarshal(b, &k) != nil {
		return nil
	}
	return k.Findings
}

func cmdCheck(args []string) int {
	fs := flag.NewFlagSet("check", flag.ExitOnError)
	specPath := fs.String("spec", "", "check spec json")
	tier := fs.String("tier", os.Getenv("VERIF_TIER"), "quick|thorough")
	only := fs.String("only", "", "run only this harness")
	workers := fs.Int("workers", envInt("GOSYM_WORKERS", runtime.NumCPU()), "parallel workers")
	solver := fs.String("solver", "z3", "solver binary")
	verbose := fs.Bool("v", false, "verbose")
	noEvidence := fs.Bool("no-evidence", false, "do not write the evidence file")
	fs.StringVar(&repoDir, "repo", "/repo", "repository")
	fs.StringVar(&verifDir, "verif", "/verif", "verif dir")
	fs.Parse(args)
	if *tier != "thorough" {
		*tier = "quick"
	}
	tierGlobal = *tier
	seed := int64(envInt("VERIF_SEED", 0))
	start := time.Now()
	spec, err := loadSpec(*specPath)
	if err != nil {
		fmt.Fprintln(os.Stderr, err)
		return 2
	}
	prog, err := LoadProgram(repoDir, filepath.Join(verifDir, "harness"), spec.Packages)
	if err != nil {
		fmt.Fprintln(os.Stderr, "load:", err)
		return 2
	}
	loadTime := time.Since(start)
	known := loadKnown()
	exit := 0
	var results []*HarnessResult
	totalViol := 0
	var knownLines, violLines, inconcl []string
	replayed := 0
	crossRuns := 0
	for _, hs := range spec.Harnesses {
		if *only != "" && hs.Name != *only {
			continue
		}
		if hs.Tier != "" && hs.Tier != *tier {
			continue
		}
		fn := prog.harness[hs.Name]
		if fn == nil {
			fmt.Fprintf(os.Stderr, "harness %s not found (have %v)\n", hs.Name, prog.harnessNames())
			return 2
		}
		cfg := defaultConfig()
		if hs.Preempt > 0 {
			cfg.Preempt = hs.Preempt
		}
		if hs.Unwind > 0 {
			cfg.Unwind = hs.Unwind
		}
		if hs.MaxSteps > 0 {
			cfg.MaxSteps = hs.MaxSteps
		}
		cfg.Merge = hs.Merge
		if hs.MaxPaths == 0 {
			hs.MaxPaths = 2_000_000
		}
		tmo := 60000
		if *tier == "thorough" {
			tmo = 300000
		}
		ex := &Explorer{prog: prog, fn: fn, spec: hs, cfg: cfg, workers: *workers, solverBin: *solver,
			rlimit: envInt("GOSYM_RLIMIT", 0), tmoMs: tmo, seed: seed}
		ex.knownLabels = map[string]bool{}
		for _, k := range known {
			if k.Status != "fixed" && k.Property == spec.Property && k.Harness == hs.Name {
				ex.knownLabels[k.Label] = true
			}
		}
		res := ex.Run()
		results = append(results, res)
		if *verbose {
			fmt.Fprintf(os.Stderr, "[%s] paths=%d outcomes=%v asserts=%d proved=%d unknown=%d queries=%d solver=%.1fs wall=%.1fs\n",
				hs.Name, res.Paths, res.Outcomes, res.Asserts, res.Proved, res.Unknowns, res.Solver.Queries, res.Solver.Time.Seconds(), res.Wall.Seconds())
		}
		if *tier == "thorough" && len(res.Violations) == 0 && len(res.Inconclusive) == 0 {
			for _, alt := range hs.Cross {
				ex2 := &Explorer{prog: prog, fn: fn, spec: hs, cfg: cfg, workers: *workers, solverBin: alt,
					rlimit: 0, tmoMs: tmo, seed: seed, knownLabels: ex.knownLabels}
				r2 := ex2.Run()
				crossRuns++
				if r2.Paths != res.Paths || len(r2.Violations) != 0 || len(r2.Inconclusive) != 0 || r2.Proved != res.Proved {
					inconcl = append(inconcl, fmt.Sprintf("%s: solver %s disagrees with %s (paths %d vs %d, proved %d vs %d, violations %d, inconclusive %v)",
						hs.Name, alt, *solver, r2.Paths, res.Paths, r2.Proved, res.Proved, len(r2.Violations), r2.Inconclusive))
				} else if *verbose {
					fmt.Fprintf(os.Stderr, "[%s] cross-checked with %s: same %d paths, %d assertion queries proved\n", hs.Name, alt, r2.Paths, r2.Proved)
				}
			}
		}
		// dedupe violations by label
		byLabel := map[string]*Violation{}
		var labels []string
		for _, v := range res.Violations {
			key := v.Kind + ":" + v.Label
			if old, ok := byLabel[key]; !ok || len(v.Decisions) < len(old.Decisions) {
				if !ok {
					labels = append(labels, key)
				}
				byLabel[key] = v
			}
		}
		sort.Strings(labels)
		twinSeen := false
		for _, key := range labels {
			v := byLabel[key]
			if hs.Twin && v.Label == "twin" {
				twinSeen = true
				continue
			}
			ok, why := ex.replayViolation(v)
			replayed++
			if !ok {
				inconcl = append(inconcl, fmt.Sprintf("%s: counterexample for %q did not reproduce in replay (%s)", hs.Name, v.Label, why))
				if os.Getenv("GOSYM_DEBUG") != "" {
					fmt.Fprintf(os.Stderr, "DEBUG non-reproduced: kind=%s label=%q pos=%s\n  model=%v\n  chooses=%v decisions=%v\n  trace=%v\n", v.Kind, v.Label, v.Pos, sampleStrings(v.Model), v.Chooses, v.Decisions, v.Trace)
				}
				continue
			}
			rp := writeReplay(spec.Property, hs.Name, v)
			if hs.Native && os.Getenv("GOSYM_NO_NATIVE") == "" {
				nok, nwhy := nativeReplay(harnessPkgDir(prog, fn), rp, v.Label, v.Kind)
				if !nok {
					inconcl = append(inconcl, fmt.Sprintf("%s: counterexample for %q reproduced in the interpreter but not in the compiled code: %s", hs.Name, v.Label, nwhy))
					continue
				}
				markNative(rp)
			}
			if kf := matchKnown(known, spec.Property, hs.Name, v.Label); kf != nil {
				knownLines = append(knownLines, fmt.Sprintf("KNOWN-FINDING: property=%s %s [harness=%s label=%s replay=%s]", spec.Property, kf.What, hs.Name, v.Label, rp))
				continue
			}
			totalViol++
			violLines = append(violLines, fmt.Sprintf("VIOLATION property=%s replay=%s", spec.Property, rp))
			fmt.Fprintf(os.Stderr, "violation in %s: kind=%s label=%q at %s\n  model=%v\n  trace=%v\n", hs.Name, v.Kind, v.Label, v.Pos, sampleStrings(v.Model), v.Trace)
		}
		if hs.Twin && !twinSeen {
			inconcl = append(inconcl, hs.Name+": vacuity twin assert(false) was not reached")
		}
		for _, mc := range res.MissingCovers {
			inconcl = append(inconcl, fmt.Sprintf("%s: cover label %q reached on no path (vacuous)", hs.Name, mc))
		}
		for _, ic := range res.Inconclusive {
			inconcl = append(inconcl, hs.Name+": "+ic)
		}
	}
	for _, l := range knownLines {
		fmt.Println(l)
	}
	for _, l := range violLines {
		fmt.Println(l)
	}
	if totalViol > 0 {
		exit = 1
	} else if len(inconcl) > 0 {
		exit = 2
	}
	for _, l := range inconcl {
		fmt.Fprintln(os.Stderr, "INCONCLUSIVE:", l)
	}
	wall := time.Since(start)
	if !*noEvidence && *only == "" {
		writeEvidence(spec, *tier, seed, results, totalViol, len(knownLines), replayed, inconcl, wall, loadTime, *solver, crossRuns)
	}
	if exit == 0 {
		np := 0
		for _, r := range results {
			np += r.Paths
		}
		fmt.Printf("OK property=%s tier=%s harnesses=%d paths=%d wall=%.1fs\n", spec.Property, *tier, len(results), np, wall.Seconds())
	}
	return exit
}

func harnessPkgDir(prog *Program, fn interface{ String() string }) string {
	// fn.String() is "<pkgpath>.H_name"
	s := fn.String()
	i := strings.LastIndex(s, ".")
	path := s[:i]
	d := strings.TrimPrefix(strings.TrimPrefix(path, modulePath), "/")
	if d == "" {
		return "."
	}
	return d
}

func markNative(path string) {
	b, err := os.ReadFile(path)
	if err != nil {
		return
	}
	var mm map[string]interface{}
	if json.Unmarshal(b, &mm) != nil {
		return
	}
	mm["replay_kind"] = "native+interp"
	nb, _ := json.MarshalIndent(mm, "", " ")
	os.WriteFile(path, nb, 0o644)
}

func matchKnown(known []KnownFinding, prop, harness, label string) *KnownFinding {
	for i := range known {
		k := &known[i]
		if k.Status == "fixed" {
			continue
		}
		if k.Property == prop && k.Harness == harness && k.Label == label {
			return k
		}
	}
	return nil
}

func sanitize(s string) string {
	var sb strings.Builder
	for _, r := range s {
		if r >= 'a' && r <= 'z' || r >= 'A' && r <= 'Z' || r >= '0' && r <= '9' || r == '-' || r == '_' {
			sb.WriteRune(r)
		} else {
			sb.WriteByte('_')
		}
	}
	return sb.String()
}

func writeReplay(prop, harness string, v *Violation) string {
	dir := filepath.Join(verifDir, "replays", prop)
	os.MkdirAll(dir, 0o755)
	path := filepath.Join(dir, fmt.Sprintf("%s-%s.json", harness, sanitize(v.Label)))
	out := map[string]interface{}{
		"property": prop, "harness": harness, "kind": v.Kind, "label": v.Label, "pos": v.Pos,
		"model": v.Model, "nondets": v.Nondets, "chooses": v.Chooses, "harness_chooses": v.HarnessChooses, "decisions": v.Decisions, "trace": v.Trace,
		"replay_kind": "interp",
	}
	b, _ := json.MarshalIndent(out, "", " ")
	os.WriteFile(path, b, 0o644)
	return path
}

func cmdReplay(args []string) int {
	fs := flag.NewFlagSet("replay", flag.ExitOnError)
	specPath := fs.String("spec", "", "check spec json")
	fs.StringVar(&repoDir, "repo", "/repo", "repository")
	fs.StringVar(&verifDir, "verif", "/verif", "verif dir")
	fs.Parse(args)
	if fs.NArg() < 1 {
		fmt.Fprintln(os.Stderr, "usage: gosym replay -spec checks/X.json <replay.json>")
		return 2
	}
	b, err := os.ReadFile(fs.Arg(0))
	if err != nil {
		fmt.Fprintln(os.Stderr, err)
		return 2
	}
	var rp struct {
		Property string
		Harness  string
		Kind     string
		Label    string
		Model    map[string]uint64
		Chooses  []int
	}
	if err := json.Unmarshal(b, &rp); err != nil {
		fmt.Fprintln(os.Stderr, err)
		return 2
	}
	if *specPath == "" {
		*specPath = filepath.Join(verifDir, "checks", rp.Property+".json")
	}
	spec, err := loadSpec(*specPath)
	if err != nil {
		fmt.Fprintln(os.Stderr, err)
		return 2
	}
	prog, err := LoadProgram(repoDir, filepath.Join(verifDir, "harness"), spec.Packages)
	if err != nil {
		fmt.Fprintln(os.Stderr, "load:", err)
		return 2
	}
	fn := prog.harness[rp.Harness]
	if fn == nil {
		fmt.Fprintln(os.Stderr, "harness not found:", rp.Harness)
		return 2
	}
	ex := &Explorer{prog: prog, fn: fn, cfg: defaultConfig(), solverBin: "z3"}
	for _, hs := range spec.Harnesses {
		if hs.Name == rp.Harness {
			if hs.Preempt > 0 {
				ex.cfg.Preempt = hs.Preempt
			}
			if hs.Unwind > 0 {
				ex.cfg.Unwind = hs.Unwind
			}
		}
	}
	v := &Violation{Kind: rp.Kind, Label: rp.Label, Model: rp.Model, Chooses: rp.Chooses}
	ok, why := ex.replayViolation(v)
	if ok {
		fmt.Printf("REPRODUCED property=%s harness=%s label=%q\n", rp.Property, rp.Harness, rp.Label)
		return 1
	}
	fmt.Printf("not reproduced: %s\n", why)
	return 0
}

func writeEvidence(spec *CheckSpec, tier string, seed int64, results []*HarnessResult, viol, knownN, replayed int, inconcl []string, wall, load time.Duration, solver string, crossRuns int) {
	paths, decisions, asserts, proved, queries, unknown := 0, 0, 0, 0, 0, 0
	var solverTime time.Duration
	funcs := map[string]bool{}
	var samples []interface{}
	perHarness := []map[string]interface{}{}
	covers := 0
	for _, r := range results {
		paths += r.Paths
		decisions += r.Decisions
		asserts += r.Asserts
		proved += r.Proved
		queries += r.Solver.Queries
		unknown += r.Solver.Unknown
		solverTime += r.Solver.Time
		covers += len(r.Covers)
		for f := range r.Funcs {
			funcs[f] = true
		}
		for _, s := range r.Samples {
			if len(samples) < 6 {
				s["harness"] = r.Name
				samples = append(samples, s)
			}
		}
		var cl []string
		for c := range r.Covers {
			cl = append(cl, c)
		}
		sort.Strings(cl)
		perHarness = append(perHarness, map[string]interface{}{
			"harness": r.Name, "paths": r.Paths, "outcomes": r.Outcomes, "decisions": r.Decisions,
			"assertion_queries": r.Asserts, "assertions_proved": r.Proved, "solver_queries": r.Solver.Queries,
			"solver_sat": r.Solver.Sat, "solver_unsat": r.Solver.Unsat, "solver_unknown": r.Solver.Unknown,
			"second_solver_asked": r.Fallback.Asked, "second_solver_sat": r.Fallback.Sat, "second_solver_unsat": r.Fallback.Unsat, "second_solver_time_s": r.Fallback.Time.Seconds(),
			"solver_time_s": r.Solver.Time.Seconds(), "wall_s": r.Wall.Seconds(), "covers": cl,
			"max_path_steps": r.MaxPathSteps, "violations": len(r.Violations),
		})
	}
	var encoded, harnessFns []string
	for f := range funcs {
		if strings.Contains(f, "zz_verif") {
			continue
		}
		if strings.Contains(f, modulePath) {
			if strings.Contains(f, ".H_") || strings.Contains(f, "stub__") || strings.Contains(f, "vfake") || strings.Contains(f, ".fake") {
				harnessFns = append(harnessFns, f)
			} else {
				encoded = append(encoded, f)
			}
		}
	}
	sort.Strings(encoded)
	if inconcl == nil {
		inconcl = []string{}
	}
	if len(samples) == 0 {
		samples = append(samples, map[string]interface{}{"note": "no completed path produced a sample model"})
	}
	rule := spec.Rule
	if rule == "" {
		rule = "each case is one feasible execution path of a harness through the SSA of the real functions (a distinct decision vector: branch outcomes on symbolic conditions, harness choices, schedule picks); every path is distinct by construction; a path is non-trivial when it reached the end of the harness or an assertion (paths cut by assume are not counted)"
	}
	nontrivial := 0
	for _, r := range results {
		nontrivial += r.Outcomes["ok"] + r.Outcomes["violation"] + r.Outcomes["panic"] + r.Outcomes["deadlock"]
	}
	cov := map[string]interface{}{
		"evaluations":                   paths,
		"distinct_nontrivial":           nontrivial,
		"rule":                          rule,
		"samples":                       samples,
		"states":                        paths,
		"transitions":                   decisions,
		"traces_validated_against_impl": replayed,
		"obligations":                   asserts,
		"discharged":                    proved,
		"checker_cmd":                   solver + " -in (SMT-LIB2 over pipes, push/pop per path and query; z3 4.8.12)",
		"trusted_base":                  spec.TrustedBase,
		"explanation":                   "bounded symbolic execution of the go/ssa form of the listed go-dcp functions; every assertion decided by the SMT solver for all values within the stated bounds",
		"exhaustive":                    len(inconcl) == 0,
		"functions_encoded":             encoded,
		"harnesses":                     perHarness,
		"bounds":                        spec.Bounds,
		"outside_claim":                 spec.Outside,
		"stubs":                         spec.Stubs,
		"solver_queries":                queries,
		"solver_unknown":                unknown,
		"solver_time_s":                 solverTime.Seconds(),
		"load_ssa_s":                    load.Seconds(),
		"known_findings_reported":       knownN,
		"inconclusive":                  inconcl,
		"cover_labels_hit":              covers,
		"cross_solver_reruns":           crossRuns,
	}
	ev := map[string]interface{}{
		"property_id": spec.Property,
		"tier":        tier,
		"seed":        seed,
		"level":       spec.Level,
		"coverage":    cov,
		"assumptions": spec.Assumptions,
		"wall_s":      wall.Seconds(),
		"violations":  viol,
	}
	os.MkdirAll(filepath.Join(verifDir, "evidence"), 0o755)
	b, _ := json.MarshalIndent(ev, "", " ")
	os.WriteFile(filepath.Join(verifDir, "evidence", spec.Property+".json"), b, 0o644)
}
