package main

// Lazy, tolerant package initialisation: the first time a global of package P
// is touched, P's synthesized init function is interpreted. Calls to other
// packages' init functions are skipped (they are initialised lazily in turn).
// An instruction that cannot be executed yields Poison; globals whose
// initialising store was never reached stay Poison, so a later use is loud.

import (
	"fmt"

	"golang.org/x/tools/go/ssa"
)

func (m *Machine) lazyInitGlobal(g *ssa.Global, cell Ptr) {
	pkg := g.Pkg
	if pkg == nil || m.initDone[pkg] {
		return
	}
	m.initDone[pkg] = true
	initFn := pkg.Func("init")
	if initFn == nil {
		return
	}
	m.prog.buildPkg(pkg)
	if initFn.Blocks == nil {
		return
	}
	// pre-poison globals that have an explicit direct initialising store
	for _, b := range initFn.Blocks {
		for _, ins := range b.Instrs {
			if st, ok := ins.(*ssa.Store); ok {
				if tg, ok := st.Addr.(*ssa.Global); ok && tg.Pkg == pkg && tg.Name() != "init$guard" {
					p, exists := m.globals[tg]
					if !exists {
						p = new(Value)
						m.globals[tg] = p
					}
					*p = Poison{"initialiser of " + tg.String() + " not executed"}
				}
			}
		}
	}
	m.runInit(initFn)
}

func (m *Machine) runInit(initFn *ssa.Function) {
	savedPre := m.preemptions
	m.preemptions = 1 << 30 // no scheduling inside initialisation
	defer func() { m.preemptions = savedPre }()
	fr := &frame{m: m, fn: initFn, thread: m.cur}
	fr.env = map[ssa.Value]Value{}
	fr.locals = make([]Value, len(initFn.Locals))
	for i, l := range initFn.Locals {
		fr.locals[i] = m.zero(deref(l.Type()))
		fr.env[l] = &fr.locals[i]
	}
	m.depth++
	defer func() { m.depth-- }()
	block := initFn.Blocks[0]
	var prev *ssa.BasicBlock
	for steps := 0; block != nil && steps < 100000; steps++ {
		fr.prevBlock, fr.block = prev, block
		instrs := m.executePhisTolerant(fr)
		var next *ssa.BasicBlock
		for _, ins := range instrs {
			switch ins := ins.(type) {
			case *ssa.If:
				c, ok := fr.env[ins.Cond].(*Term)
				if !ok {
					if v, isC := ins.Cond.(*ssa.Const); isC {
						c, ok = m.constValue(v).(*Term), true
					}
				}
				if !ok || !c.IsConst() {
					return // cannot continue initialisation
				}
				if ins.Cond.Name() != "" && isGuardLoad(ins.Cond) {
					next = block.Succs[1] // not yet initialised
				} else if c.C == 1 {
					next = block.Succs[0]
				} else {
					next = block.Succs[1]
				}
			case *ssa.Jump:
				next = block.Succs[0]
			case *ssa.Return:
				return
			case *ssa.Call:
				if callee := ins.Call.StaticCallee(); callee != nil && callee.Name() == "init" && callee.Pkg != initFn.Pkg && callee.Synthetic != "" {
					continue // other package's initialiser: lazy
				}
				m.tolerantInstr(fr, ins)
			default:
				m.tolerantInstr(fr, ins)
			}
		}
		prev, block = block, next
	}
}

func isGuardLoad(v ssa.Value) bool {
	if u, ok := v.(*ssa.UnOp); ok {
		if g, ok := u.X.(*ssa.Global); ok && g.Name() == "init$guard" {
			return true
		}
	}
	return false
}

func (m *Machine) executePhisTolerant(fr *frame) (res []ssa.Instruction) {
	defer func() {
		if p := recover(); p != nil {
			if isControl(p) {
				if ps, ok := p.(pathStop); !ok || ps.kind != "inconclusive" {
					panic(p)
				}
			}
			res = nil
		}
	}()
	if fr.prevBlock == nil {
		return fr.block.Instrs
	}
	return m.executePhis(fr)
}

func (m *Machine) tolerantInstr(fr *frame, ins ssa.Instruction) {
	defer func() {
		p := recover()
		if p == nil {
			return
		}
		switch p := p.(type) {
		case threadExit:
			panic(p)
		case pathStop:
			if p.kind != "inconclusive" {
				panic(p)
			}
		}
		if v, ok := ins.(ssa.Value); ok {
			fr.env[v] = Poison{fmt.Sprintf("init of %s: %v", fr.fn.Pkg.Pkg.Path(), short(p))}
		}
		if st, ok := ins.(*ssa.Store); ok {
			if g, ok := st.Addr.(*ssa.Global); ok {
				if cell, ok := m.globals[g]; ok {
					*cell = Poison{fmt.Sprintf("init of %s failed: %v", g, short(p))}
				}
			}
		}
	}()
	m.visitInstr(fr, ins)
}

func short(p interface{}) string {
	s := fmt.Sprint(p)
	if tp, ok := p.(targetPanic); ok {
		s = "panic " + valString(tp.v)
	}
	if he, ok := p.(hostError); ok {
		s = he.msg
	}
	if len(s) > 200 {
		s = s[:200]
	}
	return s
}
