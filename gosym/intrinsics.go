package main

// Intrinsics: the harness API, models of runtime/sync/time/context, stdlib
// leaves, csmap, and redirection to harness-defined stubs.

import (
	"fmt"
	"go/token"
	"go/types"
	"math"
	"strconv"
	"strings"

	"golang.org/x/tools/go/ssa"
)

type intrinsicFn func(m *Machine, caller *frame, fn *ssa.Function, args []Value) Value

var intrinsicTable map[string]intrinsicFn
var harnessAPI map[string]intrinsicFn

func (m *Machine) intrinsic(fn *ssa.Function) intrinsicFn {
	name := originName(fn)
	if fn.Pkg != nil && strings.HasPrefix(fn.Pkg.Pkg.Path(), modulePath) {
		if h, ok := harnessAPI[fn.Name()]; ok && fn.Parent() == nil && fn.Signature.Recv() == nil {
			if isHarnessFile(m.prog.ssa.Fset.Position(fn.Pos()).Filename) {
				return h
			}
		}
		if h, ok := intrinsicTable[name]; ok {
			return h
		}
		// a harness may replace a function of ANOTHER module package (never of its own,
		// the package under test) by `stub__mod_<pkg>_<Func>`: used to cut a constructor
		// that needs a live cluster (couchbase.NewClient in newDcp) at the interface it returns
		if fn.Parent() == nil && fn.Pkg != m.harnessPkg {
			if mn := mangledName(fn); mn != "" {
				if stub := m.prog.stubFor("mod_"+mn, m.harnessPkg); stub != nil {
					return func(m *Machine, caller *frame, _ *ssa.Function, args []Value) Value {
						return m.callSSA(caller, token.NoPos, stub, args, nil)
					}
				}
			}
		}
		return nil
	}
	if fn.Parent() == nil {
		if mn := mangledName(fn); mn != "" && mn != "strconv_ParseFloat" {
			if stub := m.prog.stubFor(mn, m.harnessPkg); stub != nil {
				return func(m *Machine, caller *frame, _ *ssa.Function, args []Value) Value {
					return m.callSSA(caller, token.NoPos, stub, args, nil)
				}
			}
		}
	}
	if h, ok := intrinsicTable[name]; ok {
		return h
	}
	// package-prefix rules
	switch {
	case strings.HasPrefix(name, "(*github.com/Trendyol/go-dcp/logger.Loggers)."):
		return noop
	}
	return nil
}

func noop(m *Machine, caller *frame, fn *ssa.Function, args []Value) Value {
	return m.zeroResults(fn)
}

// invokeIntercept handles interface method calls that are modelled without
// looking at the receiver (logging).
func (m *Machine) invokeIntercept(call *ssa.CallCommon, recv Iface) Value {
	if nt, ok := types.Unalias(call.Value.Type()).(*types.Named); ok {
		if nt.Obj().Pkg() != nil && nt.Obj().Pkg().Path() == modulePath+"/logger" && nt.Obj().Name() == "Logger" {
			return &Native{Name: "logger", Fn: func(m *Machine, args []Value) Value { return nil }}
		}
	}
	return nil
}

func (m *Machine) conc(v Value, what string) int64 { return m.concreteInt(v, what) }

func (m *Machine) concStr(v Value, what string) string {
	s, ok := v.(Str).concrete()
	if !ok {
		m.inconclusive("symbolic string for %s", what)
	}
	return s
}

func (m *Machine) boolVal(b bool) *Term { return m.tt.Bool(b) }

func (m *Machine) errorIface(msg string) Value {
	return Iface{T: m.prog.runtimeErrT, V: m.strOf(msg)}
}

func init() {
	harnessAPI = map[string]intrinsicFn{
		"nondetU64":  func(m *Machine, c *frame, f *ssa.Function, a []Value) Value { return m.freshVar(m.concStr(a[0], "nondet name"), BV(64)) },
		"nondetI64":  func(m *Machine, c *frame, f *ssa.Function, a []Value) Value { return m.freshVar(m.concStr(a[0], "nondet name"), BV(64)) },
		"nondetInt":  func(m *Machine, c *frame, f *ssa.Function, a []Value) Value { return m.freshVar(m.concStr(a[0], "nondet name"), BV(64)) },
		"nondetU32":  func(m *Machine, c *frame, f *ssa.Function, a []Value) Value { return m.freshVar(m.concStr(a[0], "nondet name"), BV(32)) },
		"nondetU16":  func(m *Machine, c *frame, f *ssa.Function, a []Value) Value { return m.freshVar(m.concStr(a[0], "nondet name"), BV(16)) },
		"nondetU8":   func(m *Machine, c *frame, f *ssa.Function, a []Value) Value { return m.freshVar(m.concStr(a[0], "nondet name"), BV(8)) },
		"nondetBool": func(m *Machine, c *frame, f *ssa.Function, a []Value) Value { return m.freshVar(m.concStr(a[0], "nondet name"), BoolSort) },
		"nondetF64": func(m *Machine, c *frame, f *ssa.Function, a []Value) Value {
			return m.freshVar(m.concStr(a[0], "nondet name"), FPSort)
		},
		"nondetBytes": func(m *Machine, c *frame, f *ssa.Function, a []Value) Value {
			name := m.concStr(a[0], "nondet name")
			n := int(m.conc(a[1], "nondetBytes length"))
			s := make(Slice, n)
			for i := range s {
				s[i] = m.freshVar(fmt.Sprintf("%s[%d]", name, i), BV(8))
			}
			return s
		},
		"nondetStr": func(m *Machine, c *frame, f *ssa.Function, a []Value) Value {
			name := m.concStr(a[0], "nondet name")
			n := int(m.conc(a[1], "nondetStr length"))
			s := make(Str, n)
			for i := range s {
				s[i] = m.freshVar(fmt.Sprintf("%s[%d]", name, i), BV(8))
			}
			return s
		},
		"choose": func(m *Machine, c *frame, f *ssa.Function, a []Value) Value {
			name := m.concStr(a[0], "choose name")
			n := int(m.conc(a[1], "choose n"))
			k := m.chooseNamed(name, n)
			return m.tt.Const(64, uint64(k))
		},
		"concretize": func(m *Machine, c *frame, f *ssa.Function, a []Value) Value {
			x := a[0].(*Term)
			lo, hi := m.conc(a[1], "concretize lo"), m.conc(a[2], "concretize hi")
			if x.IsConst() {
				if x.SVal() < lo || x.SVal() > hi {
					panic(pathStop{kind: "assume", why: "concretize out of range"})
				}
				return x
			}
			for v := lo; v < hi; v++ {
				if m.branch(m.tt.Eq(x, m.tt.Const(64, uint64(v)))) {
					return m.tt.Const(64, uint64(v))
				}
			}
			m.assume(m.tt.Eq(x, m.tt.Const(64, uint64(hi))))
			return m.tt.Const(64, uint64(hi))
		},
		"assume": func(m *Machine, c *frame, f *ssa.Function, a []Value) Value { m.assume(a[0].(*Term)); return nil },
		"assert": func(m *Machine, c *frame, f *ssa.Function, a []Value) Value {
			pos := "?"
			if c != nil {
				pos = c.fn.Name()
			}
			m.assertTerm(a[0].(*Term), m.concStr(a[1], "assert label"), pos)
			return nil
		},
		"cover": func(m *Machine, c *frame, f *ssa.Function, a []Value) Value {
			m.covers[m.concStr(a[0], "cover label")] = true
			return nil
		},
		"note": func(m *Machine, c *frame, f *ssa.Function, a []Value) Value {
			m.tracef("%s", m.concStr(a[0], "note"))
			return nil
		},
		"noteU64": func(m *Machine, c *frame, f *ssa.Function, a []Value) Value {
			m.tracef("%s=%s", m.concStr(a[0], "note"), a[1].(*Term).String())
			return nil
		},
		"tierThorough": func(m *Machine, c *frame, f *ssa.Function, a []Value) Value { return m.tt.Bool(tierGlobal == "thorough") },
		"inEngine": func(m *Machine, c *frame, f *ssa.Function, a []Value) Value { return m.tt.True },
		"expectPanic": func(m *Machine, c *frame, f *ssa.Function, a []Value) (res Value) {
			depth := m.depth
			defer func() {
				if p := recover(); p != nil {
					tp, ok := p.(targetPanic)
					if !ok {
						panic(p)
					}
					m.depth = depth
					v := tp.v
					if _, isI := v.(Iface); !isI {
						v = Iface{}
					}
					res = Tuple{m.tt.True, v}
				}
			}()
			m.call(c, token.NoPos, a[0], nil)
			return Tuple{m.tt.False, Iface{}}
		},
		"allowCrash": func(m *Machine, c *frame, f *ssa.Function, a []Value) Value {
			m.side["allowCrash"] = m.branch(a[0].(*Term))
			return nil
		},
		"allowDeadlock": func(m *Machine, c *frame, f *ssa.Function, a []Value) Value {
			m.side["allowDeadlock"] = m.branch(a[0].(*Term))
			return nil
		},
		"spawnEnv": func(m *Machine, c *frame, f *ssa.Function, a []Value) Value {
			m.spawn(a[0], nil, token.NoPos, true)
			return nil
		},
		"yield":   func(m *Machine, c *frame, f *ssa.Function, a []Value) Value { m.yield("harness"); return nil },
		"quiesce": func(m *Machine, c *frame, f *ssa.Function, a []Value) Value { m.waitQuiescence(); return nil },
		"setHorizon": func(m *Machine, c *frame, f *ssa.Function, a []Value) Value {
			m.horizon = m.conc(a[0], "horizon")
			return nil
		},
		"nowNs": func(m *Machine, c *frame, f *ssa.Function, a []Value) Value { return m.tt.Const(64, uint64(m.clock)) },
		"sharedFields": func(m *Machine, c *frame, f *ssa.Function, a []Value) Value {
			for _, s := range a[0].(Slice) {
				m.sharedFields[m.concStr(s, "field name")] = true
			}
			return nil
		},
		"setPreempt": func(m *Machine, c *frame, f *ssa.Function, a []Value) Value {
			m.cfg.Preempt = int(m.conc(a[0], "preempt"))
			return nil
		},
		"setUnwind": func(m *Machine, c *frame, f *ssa.Function, a []Value) Value {
			m.unwind = int(m.conc(a[0], "unwind"))
			return nil
		},
		"setMerge": func(m *Machine, c *frame, f *ssa.Function, a []Value) Value {
			m.noIfConv = !a[0].(*Term).IsTrue()
			return nil
		},
		"mapOrderAll": func(m *Machine, c *frame, f *ssa.Function, a []Value) Value {
			m.mapOrderAll = a[0].(*Term).IsTrue()
			return nil
		},
		"symSliceU16": func(m *Machine, c *frame, f *ssa.Function, a []Value) Value {
			n := a[0].(*Term)
			return &SymSlice{Off: m.tt.Const(64, 0), Len: n, Cap: n, Elem: types.Typ[types.Uint16]}
		},
		"sliceOff": func(m *Machine, c *frame, f *ssa.Function, a []Value) Value {
			if ss, ok := a[0].(*SymSlice); ok {
				return ss.Off
			}
			m.inconclusive("sliceOff of concrete slice")
			return nil
		},
		"freezeSchedule": func(m *Machine, c *frame, f *ssa.Function, a []Value) Value {
			m.frozenSched = true
			return nil
		},
		"thawSchedule": func(m *Machine, c *frame, f *ssa.Function, a []Value) Value {
			m.frozenSched = false
			return nil
		},
		"blockedThreads": func(m *Machine, c *frame, f *ssa.Function, a []Value) Value {
			n := 0
			for _, t := range m.threads {
				if t != m.cur && !t.done && t.started && !m.runnable(t) {
					n++
				}
			}
			return m.tt.Const(64, uint64(n))
		},
		"blockForever": func(m *Machine, c *frame, f *ssa.Function, a []Value) Value {
			m.block("blockForever", 0, func() bool { return false })
			return nil
		},
	}

	intrinsicTable = map[string]intrinsicFn{
		// ---- fmt / logging ----
		"fmt.Sprintf": func(m *Machine, c *frame, f *ssa.Function, a []Value) Value { return m.fmtString(a[0], a[1]) },
		"fmt.Sprint":  func(m *Machine, c *frame, f *ssa.Function, a []Value) Value { return m.strOf("<fmt>") },
		"fmt.Errorf": func(m *Machine, c *frame, f *ssa.Function, a []Value) Value {
			var wrapped Value = Iface{}
			format, _ := a[0].(Str).concrete()
			if strings.Contains(format, "%w") {
				for _, arg := range a[1].(Slice) {
					if it, ok := arg.(Iface); ok && it.T != nil && types.Implements(it.T, errorIface) {
						wrapped = it
					}
				}
			}
			return Iface{T: fmtErrorT, V: &Opaque{Tag: "fmtError", Data: &fmtErr{msg: format, wrapped: wrapped}}}
		},
		"fmt.Println": noop, "fmt.Printf": noop, "fmt.Print": noop,
		"log.Fatal": func(m *Machine, c *frame, f *ssa.Function, a []Value) Value {
			panic(targetPanic{m.errorIface("log.Fatal")})
		},

		// ---- errors ----
		"errors.Is": func(m *Machine, c *frame, f *ssa.Function, a []Value) Value {
			return m.tt.Bool(m.errorsIs(c, a[0].(Iface), a[1].(Iface)))
		},
		"errors.As": func(m *Machine, c *frame, f *ssa.Function, a []Value) Value {
			return m.tt.Bool(m.errorsAs(c, a[0].(Iface), a[1].(Iface)))
		},

		// ---- sync ----
		"(*sync.Mutex).Lock": func(m *Machine, c *frame, f *ssa.Function, a []Value) Value {
			p := a[0].(Ptr)
			m.yield("Lock")
			m.block("mutex", 0, func() bool { return m.side[p] == nil })
			m.side[p] = m.cur
			return nil
		},
		"(*sync.Mutex).TryLock": func(m *Machine, c *frame, f *ssa.Function, a []Value) Value {
			p := a[0].(Ptr)
			m.yield("TryLock")
			if m.side[p] == nil {
				m.side[p] = m.cur
				return m.tt.True
			}
			return m.tt.False
		},
		"(*sync.Mutex).Unlock": func(m *Machine, c *frame, f *ssa.Function, a []Value) Value {
			p := a[0].(Ptr)
			if m.side[p] == nil {
				m.runtimePanic("sync: unlock of unlocked mutex")
			}
			delete(m.side, p)
			m.yield("Unlock")
			return nil
		},
		"(*sync.RWMutex).Lock":    func(m *Machine, c *frame, f *ssa.Function, a []Value) Value { return intrinsicTable["(*sync.Mutex).Lock"](m, c, f, a) },
		"(*sync.RWMutex).Unlock":  func(m *Machine, c *frame, f *ssa.Function, a []Value) Value { return intrinsicTable["(*sync.Mutex).Unlock"](m, c, f, a) },
		"(*sync.RWMutex).RLock":   func(m *Machine, c *frame, f *ssa.Function, a []Value) Value { return intrinsicTable["(*sync.Mutex).Lock"](m, c, f, a) },
		"(*sync.RWMutex).RUnlock": func(m *Machine, c *frame, f *ssa.Function, a []Value) Value { return intrinsicTable["(*sync.Mutex).Unlock"](m, c, f, a) },
		"(*sync.WaitGroup).Add": func(m *Machine, c *frame, f *ssa.Function, a []Value) Value {
			p := a[0].(Ptr)
			n, _ := m.side[p].(int64)
			n += m.conc(a[1], "WaitGroup delta")
			if n < 0 {
				m.runtimePanic("sync: negative WaitGroup counter")
			}
			m.side[p] = n
			m.yield("wg.Add")
			return nil
		},
		"(*sync.WaitGroup).Done": func(m *Machine, c *frame, f *ssa.Function, a []Value) Value {
			p := a[0].(Ptr)
			n, _ := m.side[p].(int64)
			n--
			if n < 0 {
				m.runtimePanic("sync: negative WaitGroup counter")
			}
			m.side[p] = n
			m.yield("wg.Done")
			return nil
		},
		"(*sync.WaitGroup).Wait": func(m *Machine, c *frame, f *ssa.Function, a []Value) Value {
			p := a[0].(Ptr)
			m.yield("wg.Wait")
			m.block("WaitGroup", 0, func() bool { n, _ := m.side[p].(int64); return n == 0 })
			return nil
		},
		// atomic.Value: the stored interface lives in the machine's side table (the real code goes through unsafe)
		"(*sync/atomic.Value).Load": func(m *Machine, c *frame, f *ssa.Function, a []Value) Value {
			m.yield("atomic")
			if v, ok := m.side[a[0].(Ptr)].(Iface); ok {
				return v
			}
			return Iface{}
		},
		"(*sync/atomic.Value).Store": func(m *Machine, c *frame, f *ssa.Function, a []Value) Value {
			m.yield("atomic")
			m.side[a[0].(Ptr)] = a[1].(Iface)
			return nil
		},
		"(*sync.Once).Do": func(m *Machine, c *frame, f *ssa.Function, a []Value) Value {
			p := a[0].(Ptr)
			m.yield("once")
			st, _ := m.side[p].(string)
			switch st {
			case "done":
				return nil
			case "running":
				m.block("once", 0, func() bool { return m.side[p] == "done" })
				return nil
			}
			m.side[p] = "running"
			defer func() { m.side[p] = "done" }()
			m.call(c, token.NoPos, a[1], nil)
			return nil
		},

		// ---- sync.Pool: Get may hand back any object Put earlier, or a fresh one ----
		"(*sync.Pool).Put": func(m *Machine, c *frame, f *ssa.Function, a []Value) Value {
			p := a[0].(Ptr)
			l, _ := m.side[p].([]Value)
			m.side[p] = append(l, a[1])
			return nil
		},
		"(*sync.Pool).Get": func(m *Machine, c *frame, f *ssa.Function, a []Value) Value {
			p := a[0].(Ptr)
			l, _ := m.side[p].([]Value)
			if len(l) > 0 && m.choose("pool", 2) == 0 {
				v := l[len(l)-1]
				m.side[p] = l[:len(l)-1]
				return v
			}
			st := under(deref(f.Signature.Recv().Type())).(*types.Struct)
			for i := 0; i < st.NumFields(); i++ {
				if st.Field(i).Name() == "New" {
					nf := (*p).(Struct)[i]
					if isNilFunc(nf) {
						return Iface{}
					}
					return m.call(c, token.NoPos, nf, nil)
				}
			}
			return Iface{}
		},

		// ---- escape-analysis helpers and pointer atomics ----
		"internal/abi.NoEscape": func(m *Machine, c *frame, f *ssa.Function, a []Value) Value { return a[0] },
		"internal/abi.Escape":   func(m *Machine, c *frame, f *ssa.Function, a []Value) Value { return a[0] },
		"sync/atomic.LoadPointer": atomicLoad, "sync/atomic.StorePointer": atomicStore, "sync/atomic.SwapPointer": atomicSwap,
		"sync/atomic.CompareAndSwapPointer": atomicCAS,
		"sync/atomic.LoadUintptr": atomicLoad, "sync/atomic.StoreUintptr": atomicStore, "sync/atomic.AddUintptr": atomicAdd,
		"sync/atomic.CompareAndSwapUintptr": atomicCAS,

		// ---- sync.Map: an association list keyed by interface values ----
		"(*sync.Map).Load": func(m *Machine, c *frame, f *ssa.Function, a []Value) Value {
			m.yield("sync.Map")
			if e := m.mapFind(m.syncMapOf(a[0].(Ptr)), a[1]); e != nil {
				return Tuple{e.V, m.tt.True}
			}
			return Tuple{Iface{}, m.tt.False}
		},
		"(*sync.Map).Store": func(m *Machine, c *frame, f *ssa.Function, a []Value) Value {
			m.yield("sync.Map")
			m.mapSet(m.syncMapOf(a[0].(Ptr)), a[1], a[2])
			return nil
		},
		"(*sync.Map).LoadOrStore": func(m *Machine, c *frame, f *ssa.Function, a []Value) Value {
			m.yield("sync.Map")
			mp := m.syncMapOf(a[0].(Ptr))
			if e := m.mapFind(mp, a[1]); e != nil {
				return Tuple{e.V, m.tt.True}
			}
			mp.Entries = append(mp.Entries, &mapEntry{a[1], a[2]})
			return Tuple{a[2], m.tt.False}
		},
		"(*sync.Map).LoadAndDelete": func(m *Machine, c *frame, f *ssa.Function, a []Value) Value {
			m.yield("sync.Map")
			mp := m.syncMapOf(a[0].(Ptr))
			if e := m.mapFind(mp, a[1]); e != nil {
				v := e.V
				m.mapDelete(mp, a[1])
				return Tuple{v, m.tt.True}
			}
			return Tuple{Iface{}, m.tt.False}
		},
		"(*sync.Map).Delete": func(m *Machine, c *frame, f *ssa.Function, a []Value) Value {
			m.yield("sync.Map")
			m.mapDelete(m.syncMapOf(a[0].(Ptr)), a[1])
			return nil
		},
		"(*sync.Map).Range": func(m *Machine, c *frame, f *ssa.Function, a []Value) Value {
			m.yield("sync.Map")
			mp := m.syncMapOf(a[0].(Ptr))
			for _, e := range append([]*mapEntry(nil), mp.Entries...) {
				if !m.branch(m.call(c, token.NoPos, a[1], []Value{e.K, e.V}).(*Term)) {
					break
				}
			}
			return nil
		},

		// ---- atomics (on the pointed-to cell) ----
		"sync/atomic.AddInt32":  atomicAdd, "sync/atomic.AddInt64": atomicAdd, "sync/atomic.AddUint32": atomicAdd, "sync/atomic.AddUint64": atomicAdd,
		"sync/atomic.LoadInt32": atomicLoad, "sync/atomic.LoadInt64": atomicLoad, "sync/atomic.LoadUint32": atomicLoad, "sync/atomic.LoadUint64": atomicLoad,
		"sync/atomic.StoreInt32": atomicStore, "sync/atomic.StoreInt64": atomicStore, "sync/atomic.StoreUint32": atomicStore, "sync/atomic.StoreUint64": atomicStore,
		"sync/atomic.SwapInt32": atomicSwap, "sync/atomic.SwapInt64": atomicSwap, "sync/atomic.SwapUint32": atomicSwap, "sync/atomic.SwapUint64": atomicSwap,
		"sync/atomic.CompareAndSwapInt32": atomicCAS, "sync/atomic.CompareAndSwapInt64": atomicCAS, "sync/atomic.CompareAndSwapUint32": atomicCAS, "sync/atomic.CompareAndSwapUint64": atomicCAS,

		// ---- time ----
		"time.now": func(m *Machine, c *frame, f *ssa.Function, a []Value) Value {
			return Tuple{m.tt.Const(64, uint64(virtualEpochSec+m.clock/1e9)), m.tt.Const(32, uint64(m.clock%1e9)), m.tt.Const(64, uint64(m.clock+1))}
		},
		"time.runtimeNano": func(m *Machine, c *frame, f *ssa.Function, a []Value) Value { return m.tt.Const(64, uint64(m.clock+1)) },
		"time.Sleep": func(m *Machine, c *frame, f *ssa.Function, a []Value) Value {
			d := m.conc(a[0], "sleep duration")
			m.yield("sleep")
			if d <= 0 {
				return nil
			}
			dl := m.clock + d
			m.block("sleep", dl, func() bool { return m.clock >= dl })
			return nil
		},
		"time.After": func(m *Machine, c *frame, f *ssa.Function, a []Value) Value {
			te := m.addTimer(m.conc(a[0], "timer duration"))
			te.ch = m.newChan(1)
			return te.ch
		},
		"time.NewTimer": func(m *Machine, c *frame, f *ssa.Function, a []Value) Value {
			te := m.addTimer(m.conc(a[0], "timer duration"))
			te.ch = m.newChan(1)
			return m.newTimerObj(f, te)
		},
		"time.NewTicker": func(m *Machine, c *frame, f *ssa.Function, a []Value) Value {
			d := m.conc(a[0], "ticker period")
			if d <= 0 {
				m.runtimePanic("non-positive interval for NewTicker")
			}
			te := m.addTimer(d)
			te.period = d
			te.ch = m.newChan(1)
			return m.newTimerObj(f, te)
		},
		"time.AfterFunc": func(m *Machine, c *frame, f *ssa.Function, a []Value) Value {
			te := m.addTimer(m.conc(a[0], "timer duration"))
			te.fn = a[1]
			return m.newTimerObj(f, te)
		},
		"(*time.Timer).Stop": func(m *Machine, c *frame, f *ssa.Function, a []Value) Value {
			te := m.timerOf(a[0].(Ptr))
			m.yield("timer.Stop")
			was := te.active
			te.active = false
			return m.tt.Bool(was)
		},
		"(*time.Timer).Reset": func(m *Machine, c *frame, f *ssa.Function, a []Value) Value {
			te := m.timerOf(a[0].(Ptr))
			m.yield("timer.Reset")
			was := te.active
			te.active = true
			te.fired = false
			te.deadline = m.clock + m.conc(a[1], "timer duration")
			return m.tt.Bool(was)
		},
		"(*time.Ticker).Stop": func(m *Machine, c *frame, f *ssa.Function, a []Value) Value {
			te := m.timerOf(a[0].(Ptr))
			te.active = false
			return nil
		},

		// ---- context ----
		"context.Background": func(m *Machine, c *frame, f *ssa.Function, a []Value) Value { return m.ctxBackground() },
		"context.TODO":       func(m *Machine, c *frame, f *ssa.Function, a []Value) Value { return m.ctxBackground() },
		"context.WithCancel": func(m *Machine, c *frame, f *ssa.Function, a []Value) Value {
			ctx := m.newCtx(a[0].(Iface))
			return Tuple{ctx.iface(), ctx.cancelFn(m, "context.Canceled")}
		},
		"context.WithCancelCause": func(m *Machine, c *frame, f *ssa.Function, a []Value) Value {
			ctx := m.newCtx(a[0].(Iface))
			return Tuple{ctx.iface(), &Native{Name: "cancelCause", Fn: func(m *Machine, args []Value) Value {
				ctx.cancel(m, m.ctxErr("context.Canceled"))
				return nil
			}}}
		},
		"context.WithTimeout": func(m *Machine, c *frame, f *ssa.Function, a []Value) Value {
			return m.ctxWithDeadline(a[0].(Iface), m.clock+m.conc(a[1], "timeout"))
		},

		// ---- strings / bytes leaves ----
		"strings.Contains": func(m *Machine, c *frame, f *ssa.Function, a []Value) Value {
			return m.tt.Bool(m.strIndex(a[0].(Str), a[1].(Str), 0) >= 0)
		},
		"strings.Index": func(m *Machine, c *frame, f *ssa.Function, a []Value) Value {
			return m.tt.Const(64, uint64(int64(m.strIndex(a[0].(Str), a[1].(Str), 0))))
		},
		"strings.LastIndex": func(m *Machine, c *frame, f *ssa.Function, a []Value) Value {
			return m.tt.Const(64, uint64(int64(m.strLastIndex(a[0].(Str), a[1].(Str)))))
		},
		"strings.HasPrefix": func(m *Machine, c *frame, f *ssa.Function, a []Value) Value {
			s, p := a[0].(Str), a[1].(Str)
			if len(s) < len(p) {
				return m.tt.False
			}
			return m.strEq(s[:len(p)], p)
		},
		"strings.HasSuffix": func(m *Machine, c *frame, f *ssa.Function, a []Value) Value {
			s, p := a[0].(Str), a[1].(Str)
			if len(s) < len(p) {
				return m.tt.False
			}
			return m.strEq(s[len(s)-len(p):], p)
		},
		"strings.Split": func(m *Machine, c *frame, f *ssa.Function, a []Value) Value {
			s, sep := a[0].(Str), a[1].(Str)
			if len(sep) == 0 {
				m.inconclusive("strings.Split with empty separator")
			}
			var out Slice
			start := 0
			for {
				i := m.strIndex(s, sep, start)
				if i < 0 {
					break
				}
				out = append(out, s[start:i])
				start = i + len(sep)
			}
			out = append(out, s[start:])
			return out
		},
		"strings.Join": func(m *Machine, c *frame, f *ssa.Function, a []Value) Value {
			var out Str
			for i, e := range a[0].(Slice) {
				if i > 0 {
					out = append(out, a[1].(Str)...)
				}
				out = append(out, e.(Str)...)
			}
			return out
		},
		"strings.ReplaceAll": func(m *Machine, c *frame, f *ssa.Function, a []Value) Value {
			s, old, nw := a[0].(Str), a[1].(Str), a[2].(Str)
			if len(old) == 0 {
				m.inconclusive("ReplaceAll with empty pattern")
			}
			var out Str
			start := 0
			for {
				i := m.strIndex(s, old, start)
				if i < 0 {
					break
				}
				out = append(out, s[start:i]...)
				out = append(out, nw...)
				start = i + len(old)
			}
			out = append(out, s[start:]...)
			return out
		},
		"strings.ToUpper": func(m *Machine, c *frame, f *ssa.Function, a []Value) Value {
			s := a[0].(Str)
			out := make(Str, len(s))
			for i, b := range s {
				m.requireASCII(b)
				isLower := m.tt.And(m.tt.BvCmp(OBvUle, m.tt.Const(8, 'a'), b), m.tt.BvCmp(OBvUle, b, m.tt.Const(8, 'z')))
				out[i] = m.tt.Ite(isLower, m.tt.BvBin(OBvSub, b, m.tt.Const(8, 32)), b)
			}
			return out
		},
		"strings.ToLower": func(m *Machine, c *frame, f *ssa.Function, a []Value) Value {
			s := a[0].(Str)
			out := make(Str, len(s))
			for i, b := range s {
				m.requireASCII(b)
				isUpper := m.tt.And(m.tt.BvCmp(OBvUle, m.tt.Const(8, 'A'), b), m.tt.BvCmp(OBvUle, b, m.tt.Const(8, 'Z')))
				out[i] = m.tt.Ite(isUpper, m.tt.BvBin(OBvAdd, b, m.tt.Const(8, 32)), b)
			}
			return out
		},
		"(*strings.Builder).WriteString": func(m *Machine, c *frame, f *ssa.Function, a []Value) Value {
			p := a[0].(Ptr)
			cur, _ := m.side[p].(Str)
			m.side[p] = append(append(Str{}, cur...), a[1].(Str)...)
			return Tuple{m.tt.Const(64, uint64(len(a[1].(Str)))), Iface{}}
		},
		"(*strings.Builder).Write": func(m *Machine, c *frame, f *ssa.Function, a []Value) Value {
			p := a[0].(Ptr)
			cur, _ := m.side[p].(Str)
			m.side[p] = append(append(Str{}, cur...), sliceToStr(a[1].(Slice))...)
			return Tuple{m.tt.Const(64, uint64(len(a[1].(Slice)))), Iface{}}
		},
		"(*strings.Builder).WriteByte": func(m *Machine, c *frame, f *ssa.Function, a []Value) Value {
			p := a[0].(Ptr)
			cur, _ := m.side[p].(Str)
			m.side[p] = append(append(Str{}, cur...), a[1].(*Term))
			return Iface{}
		},
		"(*strings.Builder).WriteRune": func(m *Machine, c *frame, f *ssa.Function, a []Value) Value {
			p := a[0].(Ptr)
			r := a[1].(*Term)
			if !r.IsConst() || r.C >= 0x80 {
				m.inconclusive("strings.Builder.WriteRune of a symbolic or non-ASCII rune")
			}
			cur, _ := m.side[p].(Str)
			m.side[p] = append(append(Str{}, cur...), m.tt.Const(8, r.C))
			return Tuple{m.tt.Const(64, 1), Iface{}}
		},
		"(*strings.Builder).String": func(m *Machine, c *frame, f *ssa.Function, a []Value) Value {
			cur, _ := m.side[a[0].(Ptr)].(Str)
			return append(Str{}, cur...)
		},
		"(*strings.Builder).Len": func(m *Machine, c *frame, f *ssa.Function, a []Value) Value {
			cur, _ := m.side[a[0].(Ptr)].(Str)
			return m.tt.Const(64, uint64(len(cur)))
		},
		"(*strings.Builder).Grow":  noop,
		"(*strings.Builder).Reset": func(m *Machine, c *frame, f *ssa.Function, a []Value) Value { delete(m.side, a[0].(Ptr)); return nil },
		"internal/bytealg.CountString": func(m *Machine, c *frame, f *ssa.Function, a []Value) Value {
			n := 0
			for _, b := range a[0].(Str) {
				if m.branch(m.tt.Eq(b, a[1].(*Term))) {
					n++
				}
			}
			return m.tt.Const(64, uint64(n))
		},
		"internal/bytealg.Count": func(m *Machine, c *frame, f *ssa.Function, a []Value) Value {
			n := 0
			for _, b := range a[0].(Slice) {
				if m.branch(m.tt.Eq(b.(*Term), a[1].(*Term))) {
					n++
				}
			}
			return m.tt.Const(64, uint64(n))
		},
		"internal/bytealg.IndexByteString": func(m *Machine, c *frame, f *ssa.Function, a []Value) Value {
			for i, b := range a[0].(Str) {
				if m.branch(m.tt.Eq(b, a[1].(*Term))) {
					return m.tt.Const(64, uint64(i))
				}
			}
			return m.tt.Const(64, ^uint64(0))
		},
		"internal/bytealg.IndexByte": func(m *Machine, c *frame, f *ssa.Function, a []Value) Value {
			for i, b := range a[0].(Slice) {
				if m.branch(m.tt.Eq(b.(*Term), a[1].(*Term))) {
					return m.tt.Const(64, uint64(i))
				}
			}
			return m.tt.Const(64, ^uint64(0))
		},
		"internal/bytealg.IndexString": func(m *Machine, c *frame, f *ssa.Function, a []Value) Value {
			return m.tt.Const(64, uint64(int64(m.strIndex(a[0].(Str), a[1].(Str), 0))))
		},
		"internal/bytealg.Equal": func(m *Machine, c *frame, f *ssa.Function, a []Value) Value {
			return m.strEq(sliceToStr(a[0].(Slice)), sliceToStr(a[1].(Slice)))
		},
		"strings.Count": func(m *Machine, c *frame, f *ssa.Function, a []Value) Value {
			s, sep := a[0].(Str), a[1].(Str)
			if len(sep) == 0 {
				m.inconclusive("strings.Count with an empty separator")
			}
			n, from := 0, 0
			for {
				i := m.strIndex(s, sep, from)
				if i < 0 {
					break
				}
				n++
				from = i + len(sep)
			}
			return m.tt.Const(64, uint64(n))
		},
		"strings.IndexByte": func(m *Machine, c *frame, f *ssa.Function, a []Value) Value {
			for i, b := range a[0].(Str) {
				if m.branch(m.tt.Eq(b, a[1].(*Term))) {
					return m.tt.Const(64, uint64(i))
				}
			}
			return m.tt.Const(64, ^uint64(0))
		},
		"internal/bytealg.MakeNoZero": func(m *Machine, c *frame, f *ssa.Function, a []Value) Value {
			n := int(m.conc(a[0], "MakeNoZero length"))
			s := make(Slice, n)
			for i := range s {
				s[i] = m.tt.Const(8, 0)
			}
			return s
		},
		"strings.TrimSpace": func(m *Machine, c *frame, f *ssa.Function, a []Value) Value {
			s := a[0].(Str)
			isSpace := func(b *Term) *Term {
				m.requireASCII(b)
				r := m.tt.False
				for _, ch := range []byte{' ', '\t', '\n', '\v', '\f', '\r'} {
					r = m.tt.Or(r, m.tt.Eq(b, m.tt.Const(8, uint64(ch))))
				}
				return r
			}
			for len(s) > 0 && m.branch(isSpace(s[0])) {
				s = s[1:]
			}
			for len(s) > 0 && m.branch(isSpace(s[len(s)-1])) {
				s = s[:len(s)-1]
			}
			return s
		},
		"internal/stringslite.Clone": func(m *Machine, c *frame, f *ssa.Function, a []Value) Value { return a[0] },
		"strings.Clone":              func(m *Machine, c *frame, f *ssa.Function, a []Value) Value { return a[0] },
		"bytes.Clone": func(m *Machine, c *frame, f *ssa.Function, a []Value) Value {
			s := a[0].(Slice)
			if s == nil {
				return Slice(nil)
			}
			return append(Slice{}, s...)
		},
		"bytes.Equal": func(m *Machine, c *frame, f *ssa.Function, a []Value) Value {
			return m.strEq(sliceToStr(a[0].(Slice)), sliceToStr(a[1].(Slice)))
		},
		"bytes.HasPrefix": func(m *Machine, c *frame, f *ssa.Function, a []Value) Value {
			s, p := sliceToStr(a[0].(Slice)), sliceToStr(a[1].(Slice))
			if len(s) < len(p) {
				return m.tt.False
			}
			return m.strEq(s[:len(p)], p)
		},

		// ---- strconv with concrete arguments ----
		"strconv.Itoa": func(m *Machine, c *frame, f *ssa.Function, a []Value) Value {
			t := a[0].(*Term)
			if t.IsConst() {
				return m.strOf(strconv.Itoa(int(t.SVal())))
			}
			return m.symItoa(t)
		},
		"strconv.ParseFloat": func(m *Machine, c *frame, f *ssa.Function, a []Value) Value {
			s, ok := a[0].(Str).concrete()
			if !ok {
				// symbolic text: only a harness-provided model can answer
				if h := m.prog.stubFor("strconv_ParseFloat", m.harnessPkg); h != nil {
					return m.callSSA(c, token.NoPos, h, a, nil)
				}
				m.inconclusive("strconv.ParseFloat on symbolic text")
			}
			v, err := strconv.ParseFloat(s, int(m.conc(a[1], "bitSize")))
			if err != nil {
				return Tuple{m.tt.FPConst(v), m.errorIface("strconv.ParseFloat: " + err.Error())}
			}
			return Tuple{m.tt.FPConst(v), Iface{}}
		},
		"strconv.FormatBool": func(m *Machine, c *frame, f *ssa.Function, a []Value) Value {
			if m.branch(a[0].(*Term)) {
				return m.strOf("true")
			}
			return m.strOf("false")
		},

		// ---- reflect subset ----
		"reflect.ValueOf": func(m *Machine, c *frame, f *ssa.Function, a []Value) Value {
			it := a[0].(Iface)
			return &Opaque{Tag: "reflect.Value", Data: &rval{t: it.T, v: it.V, valid: it.T != nil}}
		},
		"reflect.TypeOf": func(m *Machine, c *frame, f *ssa.Function, a []Value) Value {
			it := a[0].(Iface)
			if it.T == nil {
				return Iface{}
			}
			return Iface{T: rtypeT, V: &Opaque{Tag: "reflect.Type", Data: it.T}}
		},
		"(reflect.Value).FieldByName": func(m *Machine, c *frame, f *ssa.Function, a []Value) Value {
			rv := a[0].(*Opaque).Data.(*rval)
			return &Opaque{Tag: "reflect.Value", Data: m.reflectFieldByName(rv, m.concStr(a[1], "field name"))}
		},
		"(reflect.Value).IsValid": func(m *Machine, c *frame, f *ssa.Function, a []Value) Value {
			return m.tt.Bool(a[0].(*Opaque).Data.(*rval).valid)
		},
		"(reflect.Value).Bytes": func(m *Machine, c *frame, f *ssa.Function, a []Value) Value {
			rv := a[0].(*Opaque).Data.(*rval)
			s, ok := rv.v.(Slice)
			if !rv.valid || !ok {
				m.runtimePanic("reflect: call of reflect.Value.Bytes on non-slice Value")
			}
			return s
		},

		// ---- sort (insertion sort over interpreted Less/Swap) ----
		"sort.Sort": func(m *Machine, c *frame, f *ssa.Function, a []Value) Value {
			data := a[0].(Iface)
			nv, _ := m.callMethod(c, data, "Len")
			n := int(m.conc(nv, "sort length"))
			for i := 1; i < n; i++ {
				for j := i; j > 0; j-- {
					lt, _ := m.callMethod(c, data, "Less", m.tt.Const(64, uint64(j)), m.tt.Const(64, uint64(j-1)))
					if !m.branch(lt.(*Term)) {
						break
					}
					m.callMethod(c, data, "Swap", m.tt.Const(64, uint64(j)), m.tt.Const(64, uint64(j-1)))
				}
			}
			return nil
		},
		"sort.Stable": func(m *Machine, c *frame, f *ssa.Function, a []Value) Value {
			return intrinsicTable["sort.Sort"](m, c, f, a)
		},
		"sort.SliceStable": sortSlice, "sort.Slice": sortSlice,
		"sort.Strings": func(m *Machine, c *frame, f *ssa.Function, a []Value) Value {
			s := a[0].(Slice)
			for i := 1; i < len(s); i++ {
				for j := i; j > 0; j-- {
					if !m.branch(m.strCmp(token.LSS, s[j].(Str), s[j-1].(Str))) {
						break
					}
					s[j], s[j-1] = s[j-1], s[j]
				}
			}
			return nil
		},

		// ---- math ----
		"math.Float64bits": func(m *Machine, c *frame, f *ssa.Function, a []Value) Value {
			t := a[0].(*Term)
			if t.IsConst() {
				return m.tt.Const(64, t.C)
			}
			m.inconclusive("Float64bits of symbolic float")
			return nil
		},
		"math.Float64frombits": func(m *Machine, c *frame, f *ssa.Function, a []Value) Value {
			t := a[0].(*Term)
			if t.IsConst() {
				return m.tt.FPConst(math.Float64frombits(t.C))
			}
			m.inconclusive("Float64frombits of symbolic bits")
			return nil
		},
		"runtime.Gosched":   func(m *Machine, c *frame, f *ssa.Function, a []Value) Value { m.yield("gosched"); return nil },
		"runtime.KeepAlive": noop,
		"os.Exit": func(m *Machine, c *frame, f *ssa.Function, a []Value) Value {
			panic(targetPanic{m.errorIface("os.Exit")})
		},
	}
	registerCsmap()
}

func sortSlice(m *Machine, c *frame, f *ssa.Function, a []Value) Value {
	s, ok := a[0].(Iface).V.(Slice)
	if !ok {
		m.inconclusive("sort.Slice on a non-slice")
	}
	for i := 1; i < len(s); i++ {
		for j := i; j > 0; j-- {
			lt := m.call(c, token.NoPos, a[1], []Value{m.tt.Const(64, uint64(j)), m.tt.Const(64, uint64(j-1))})
			if !m.branch(lt.(*Term)) {
				break
			}
			s[j], s[j-1] = s[j-1], s[j]
		}
	}
	return nil
}

func (m *Machine) syncMapOf(p Ptr) *Map {
	if p == nil {
		m.runtimePanic("invalid memory address or nil pointer dereference (nil *sync.Map)")
	}
	mp, ok := m.side[p].(*Map)
	if !ok {
		mp = &Map{KeyT: types.NewInterfaceType(nil, nil)}
		m.side[p] = mp
	}
	return mp
}

func (m *Machine) chooseNamed(name string, n int) int {
	m.harnessChoose = true
	k := m.choose(name, n)
	m.harnessChoose = false
	m.tracef("choose %s=%d", name, k)
	return k
}

func (m *Machine) requireASCII(b *Term) {
	if b.IsConst() {
		if b.C >= 0x80 {
			m.inconclusive("non-ASCII byte in case/space mapping")
		}
		return
	}
	if !m.branch(m.tt.BvCmp(OBvUlt, b, m.tt.Const(8, 0x80))) {
		m.inconclusive("symbolic non-ASCII byte in case/space mapping")
	}
}

func sliceToStr(s Slice) Str {
	r := make(Str, len(s))
	for i := range s {
		r[i] = s[i].(*Term)
	}
	return r
}

// strIndex returns the first index >= from at which sep occurs in s, forking
// on symbolic comparisons.
func (m *Machine) strIndex(s, sep Str, from int) int {
	for i := from; i+len(sep) <= len(s); i++ {
		if m.branch(m.strEq(s[i:i+len(sep)], sep)) {
			return i
		}
	}
	return -1
}

func (m *Machine) strLastIndex(s, sep Str) int {
	for i := len(s) - len(sep); i >= 0; i-- {
		if m.branch(m.strEq(s[i:i+len(sep)], sep)) {
			return i
		}
	}
	return -1
}

// symItoa renders a symbolic non-negative value < 100000 as decimal by forking
// on the digit count; used for strconv.Itoa(int(vbID)).
func (m *Machine) symItoa(t *Term) Value {
	tt := m.tt
	w := 64
	if t.Op == OZext && t.Args[0].S.W >= 8 {
		// a zero-extended narrower value (e.g. int(uint16)): do the digit arithmetic at its width
		t = t.Args[0]
		w = int(t.S.W)
	} else if m.branch(tt.BvCmp(OBvSlt, t, tt.Const(64, 0))) {
		m.inconclusive("Itoa of symbolic negative value")
	}
	limits := []uint64{10, 100, 1000, 10000, 100000}
	for nd, lim := range limits {
		last := w < 64 && lim > mask(uint8(w))
		if last || m.branch(tt.BvCmp(OBvUlt, t, tt.Const(w, lim))) {
			digits := make(Str, nd+1)
			rem := t
			for i := nd; i >= 0; i-- {
				d := tt.BvBin(OBvURem, rem, tt.Const(w, 10))
				digits[i] = tt.BvBin(OBvAdd, tt.Resize(d, 8, false), tt.Const(8, '0'))
				rem = tt.BvBin(OBvUDiv, rem, tt.Const(w, 10))
			}
			return digits
		}
	}
	m.inconclusive("Itoa of symbolic value >= 100000")
	return nil
}

// fmtString models fmt.Sprintf: exact for the verbs go-dcp relies on when all
// operands are concrete or strings; otherwise an opaque marker text.
func (m *Machine) fmtString(format Value, args Value) Value {
	f, ok := format.(Str).concrete()
	if !ok {
		return m.strOf("<fmt>")
	}
	as := args.(Slice)
	var out Str
	ai := 0
	for i := 0; i < len(f); i++ {
		if f[i] != '%' || i+1 >= len(f) {
			out = append(out, m.tt.Const(8, uint64(f[i])))
			continue
		}
		i++
		verb := f[i]
		if verb == '%' {
			out = append(out, m.tt.Const(8, '%'))
			continue
		}
		if ai >= len(as) {
			out = append(out, m.strOf("%!"+string(verb)+"(MISSING)")...)
			continue
		}
		arg := as[ai].(Iface)
		ai++
		switch v := arg.V.(type) {
		case Str:
			out = append(out, v...)
		case *Term:
			if v.IsConst() && v.S.K == SBV {
				_, signed, _ := basicInfo(arg.T)
				if signed {
					out = append(out, m.strOf(strconv.FormatInt(v.SVal(), 10))...)
				} else {
					out = append(out, m.strOf(strconv.FormatUint(v.C, 10))...)
				}
			} else if v.S.K == SBV && verb == 'd' || verb == 'v' && v.S.K == SBV {
				out = append(out, m.symItoa(m.tt.Resize(v, 64, false)).(Str)...)
			} else {
				out = append(out, m.strOf("<?>")...)
			}
		default:
			out = append(out, m.strOf("<?>")...)
		}
	}
	return out
}

// ---- atomics ----

func atomicAdd(m *Machine, c *frame, f *ssa.Function, a []Value) Value {
	m.yield("atomic")
	p := a[0].(Ptr)
	nv := m.tt.BvBin(OBvAdd, m.load(p).(*Term), a[1].(*Term))
	m.store(p, nv)
	return nv
}
func atomicLoad(m *Machine, c *frame, f *ssa.Function, a []Value) Value {
	m.yield("atomic")
	return m.load(a[0].(Ptr))
}
func atomicStore(m *Machine, c *frame, f *ssa.Function, a []Value) Value {
	m.yield("atomic")
	m.store(a[0].(Ptr), a[1])
	return nil
}
func atomicSwap(m *Machine, c *frame, f *ssa.Function, a []Value) Value {
	m.yield("atomic")
	old := m.load(a[0].(Ptr))
	m.store(a[0].(Ptr), a[1])
	return old
}
func atomicCAS(m *Machine, c *frame, f *ssa.Function, a []Value) Value {
	m.yield("atomic")
	p := a[0].(Ptr)
	if op, isPtr := m.load(p).(Ptr); isPtr {
		if op == a[1].(Ptr) {
			m.store(p, a[2])
			return m.tt.True
		}
		return m.tt.False
	}
	if m.branch(m.tt.Eq(m.load(p).(*Term), a[1].(*Term))) {
		m.store(p, a[2])
		return m.tt.True
	}
	return m.tt.False
}

// ---- timers ----

func (m *Machine) newTimerObj(f *ssa.Function, te *timerEntry) Value {
	// result type is *time.Timer or *time.Ticker: allocate the struct, set C
	st := deref(f.Signature.Results().At(0).Type())
	cell := new(Value)
	sv := m.zero(st).(Struct)
	if te.ch != nil {
		sv[0] = te.ch
	}
	*cell = sv
	m.side[cell] = te
	return cell
}

func (m *Machine) timerOf(p Ptr) *timerEntry {
	if p == nil {
		m.runtimePanic("nil Timer")
	}
	te, ok := m.side[p].(*timerEntry)
	if !ok {
		m.runtimePanic("time: Stop/Reset called on uninitialized Timer")
	}
	return te
}

// ---- errors.Is / errors.As ----

var errorIface = types.Universe.Lookup("error").Type().Underlying().(*types.Interface)

type fmtErr struct {
	msg     string
	wrapped Value
}

var fmtErrorT = types.NewNamed(types.NewTypeName(token.NoPos, nil, "gosym.fmtError", nil), types.NewStruct(nil, nil), nil)
var rtypeT = types.NewNamed(types.NewTypeName(token.NoPos, nil, "gosym.rtype", nil), types.NewStruct(nil, nil), nil)
var ctxT = types.NewNamed(types.NewTypeName(token.NoPos, nil, "gosym.context", nil), types.NewStruct(nil, nil), nil)

func (m *Machine) callMethod(c *frame, recv Iface, name string, args ...Value) (Value, bool) {
	if recv.T == nil {
		return nil, false
	}
	if op, ok := recv.V.(*Opaque); ok {
		nf := m.opaqueMethod(op, name)
		if nf == nil {
			return nil, false
		}
		return nf.Fn(m, append([]Value{recv.V}, args...)), true
	}
	ms := m.prog.ssa.MethodSets.MethodSet(recv.T)
	for i := 0; i < ms.Len(); i++ {
		sel := ms.At(i)
		if sel.Obj().Name() == name {
			fn := m.prog.ssa.MethodValue(sel)
			if fn == nil {
				return nil, false
			}
			return m.call(c, token.NoPos, fn, append([]Value{recv.V}, args...)), true
		}
	}
	return nil, false
}

func (m *Machine) unwrapErr(c *frame, err Iface) []Iface {
	r, ok := m.callMethod(c, err, "Unwrap")
	if !ok {
		return nil
	}
	switch r := r.(type) {
	case Iface:
		if r.T == nil {
			return nil
		}
		return []Iface{r}
	case Slice:
		var out []Iface
		for _, e := range r {
			if it := e.(Iface); it.T != nil {
				out = append(out, it)
			}
		}
		return out
	}
	return nil
}

func (m *Machine) errorsIs(c *frame, err, target Iface) bool {
	if err.T == nil || target.T == nil {
		return err.T == nil && target.T == nil
	}
	comparable := types.Comparable(target.T)
	if _, isOp := target.V.(*Opaque); isOp {
		comparable = true
	}
	if comparable && types.Identical(err.T, target.T) {
		if m.branch(m.equals(err.T, err.V, target.V)) {
			return true
		}
	}
	if r, ok := m.callMethod(c, err, "Is", target); ok {
		if t, isT := r.(*Term); isT && m.branch(t) {
			return true
		}
	}
	for _, u := range m.unwrapErr(c, err) {
		if m.errorsIs(c, u, target) {
			return true
		}
	}
	return false
}

func (m *Machine) errorsAs(c *frame, err, target Iface) bool {
	if err.T == nil {
		return false
	}
	if target.T == nil {
		m.runtimePanic("errors: target cannot be nil")
	}
	pt, ok := under(target.T).(*types.Pointer)
	if !ok || target.V.(Ptr) == nil {
		m.runtimePanic("errors: target must be a non-nil pointer")
	}
	elem := pt.Elem()
	match := false
	var val Value
	if it, ok := under(elem).(*types.Interface); ok {
		if m.implements(err, it) {
			match, val = true, err
		}
	} else if types.Identical(err.T, elem) {
		match, val = true, err.V
	}
	if match {
		m.store(target.V.(Ptr), val)
		return true
	}
	if r, ok := m.callMethod(c, err, "As", target); ok {
		if t, isT := r.(*Term); isT && m.branch(t) {
			return true
		}
	}
	for _, u := range m.unwrapErr(c, err) {
		if m.errorsAs(c, u, target) {
			return true
		}
	}
	return false
}

// ---- opaque objects' methods ----

func (m *Machine) opaqueMethod(op *Opaque, name string) *Native {
	switch op.Tag {
	case "fmtError":
		fe := op.Data.(*fmtErr)
		switch name {
		case "Error":
			return &Native{Name: "fmtError.Error", Fn: func(m *Machine, a []Value) Value { return m.strOf(fe.msg) }}
		case "Unwrap":
			return &Native{Name: "fmtError.Unwrap", Fn: func(m *Machine, a []Value) Value { return fe.wrapped }}
		}
	case "reflect.Type":
		t := op.Data.(types.Type)
		switch name {
		case "Name":
			return &Native{Name: "rtype.Name", Fn: func(m *Machine, a []Value) Value {
				if nt, ok := types.Unalias(t).(*types.Named); ok {
					return m.strOf(nt.Obj().Name())
				}
				if b, ok := t.(*types.Basic); ok {
					return m.strOf(b.Name())
				}
				return m.strOf("")
			}}
		case "String":
			return &Native{Name: "rtype.String", Fn: func(m *Machine, a []Value) Value { return m.strOf(t.String()) }}
		}
	case "context":
		return m.ctxMethod(op.Data.(*ctxData), name)
	}
	return nil
}

// ---- reflect ----

type rval struct {
	t     types.Type
	v     Value
	valid bool
}

func (m *Machine) reflectFieldByName(rv *rval, name string) *rval {
	if !rv.valid {
		m.runtimePanic("reflect: call of reflect.Value.FieldByName on zero Value")
	}
	st, ok := under(rv.t).(*types.Struct)
	if !ok {
		m.runtimePanic("reflect: call of reflect.Value.FieldByName on " + rv.t.String() + " Value")
	}
	// breadth-first over embedded fields, as reflect does
	type cand struct {
		t types.Type
		v Value
	}
	level := []cand{{rv.t, rv.v}}
	_ = st
	for depth := 0; depth < 4 && len(level) > 0; depth++ {
		var next []cand
		var found []*rval
		for _, c := range level {
			s, ok := under(c.t).(*types.Struct)
			if !ok {
				continue
			}
			sv := c.v.(Struct)
			for i := 0; i < s.NumFields(); i++ {
				f := s.Field(i)
				if f.Name() == name {
					found = append(found, &rval{t: f.Type(), v: sv[i], valid: true})
					continue
				}
				if f.Embedded() {
					ft := f.Type()
					fv := sv[i]
					if p, ok := under(ft).(*types.Pointer); ok {
						pp := fv.(Ptr)
						if pp == nil {
							if _, isS := under(p.Elem()).(*types.Struct); isS {
								// reflect panics when traversing a nil embedded pointer that holds the field
								next = append(next, cand{nil, nil})
							}
							continue
						}
						ft, fv = p.Elem(), *pp
					}
					if _, ok := under(ft).(*types.Struct); ok {
						next = append(next, cand{ft, fv})
					}
				}
			}
		}
		if len(found) == 1 {
			return found[0]
		}
		if len(found) > 1 {
			return &rval{}
		}
		level = level[:0]
		for _, n := range next {
			if n.t == nil {
				m.inconclusive("reflect.FieldByName through nil embedded pointer")
			}
			level = append(level, n)
		}
	}
	return &rval{}
}
