package main

// If-conversion (state merging for pure regions): a branch on a symbolic
// condition whose two sides are side-effect-free and re-join at the branch's
// immediate post-dominator is executed on both sides, and the phis at the join
// become ite-terms. This removes the path forks of `a && b`, `a || b` and
// `if c { x-- }` patterns. Anything impure, any nested symbolic fork that
// cannot be merged, any possible run-time panic aborts the attempt and the
// engine falls back to forking, so the semantics is unchanged.

import (
	"go/token"
	"os"
	"slices"

	"golang.org/x/tools/go/ssa"
)

type specAbort struct{}

var debugMerge = os.Getenv("GOSYM_DEBUGMERGE") != ""

type pdomInfo struct {
	ipdom []int // by block index; -1 = virtual exit / none
}

func (p *Program) postDom(fn *ssa.Function) *pdomInfo {
	p.buildMu.Lock()
	defer p.buildMu.Unlock()
	if p.pdoms == nil {
		p.pdoms = map[*ssa.Function]*pdomInfo{}
	}
	if pi, ok := p.pdoms[fn]; ok {
		return pi
	}
	n := len(fn.Blocks)
	words := (n + 1 + 63) / 64
	full := make([]uint64, words)
	for i := 0; i <= n; i++ {
		full[i/64] |= 1 << (i % 64)
	}
	sets := make([][]uint64, n+1)
	for i := 0; i < n; i++ {
		sets[i] = slices.Clone(full)
	}
	sets[n] = make([]uint64, words)
	sets[n][n/64] |= 1 << (n % 64)
	changed := true
	for changed {
		changed = false
		for i := n - 1; i >= 0; i-- {
			b := fn.Blocks[i]
			nw := slices.Clone(full)
			succs := []int{}
			for _, s := range b.Succs {
				succs = append(succs, s.Index)
			}
			if len(succs) == 0 {
				succs = []int{n}
			}
			for _, s := range succs {
				for w := range nw {
					nw[w] &= sets[s][w]
				}
			}
			nw[i/64] |= 1 << (i % 64)
			if !slices.Equal(nw, sets[i]) {
				sets[i] = nw
				changed = true
			}
		}
	}
	count := func(s []uint64) int {
		c := 0
		for _, w := range s {
			for ; w != 0; w &= w - 1 {
				c++
			}
		}
		return c
	}
	pi := &pdomInfo{ipdom: make([]int, n)}
	for i := 0; i < n; i++ {
		pi.ipdom[i] = -1
		want := count(sets[i]) - 1
		for d := 0; d < n; d++ {
			if d != i && sets[i][d/64]&(1<<(d%64)) != 0 && count(sets[d]) == want {
				pi.ipdom[i] = d
				break
			}
		}
	}
	p.pdoms[fn] = pi
	return pi
}

type arrival struct {
	guard *Term
	pred  *ssa.BasicBlock
}

// tryIfConvert attempts to merge the two sides of ins. On success the frame is
// positioned at the join block with its phis already assigned.
func (m *Machine) tryIfConvert(fr *frame, ins *ssa.If, cond *Term) (ok bool) {
	if m.noIfConv {
		return false
	}
	X := fr.block
	pi := m.prog.postDom(fr.fn)
	j := pi.ipdom[X.Index]
	if j < 0 {
		return false
	}
	J := fr.fn.Blocks[j]
	var phis []*ssa.Phi
	for _, in := range J.Instrs {
		if p, isPhi := in.(*ssa.Phi); isPhi {
			phis = append(phis, p)
		} else {
			break
		}
	}
	savedSteps := m.steps
	savedPrev := fr.prevBlock
	m.spec++
	defer func() {
		m.spec--
		if p := recover(); p != nil {
			fr.prevBlock, fr.block = savedPrev, X
			if _, isAbort := p.(specAbort); isAbort {
				ok = false
				m.steps = savedSteps
				return
			}
			if _, isTP := p.(targetPanic); isTP {
				// a possible run-time panic on one side: let the forking path find it
				ok = false
				m.steps = savedSteps
				return
			}
			panic(p)
		}
	}()
	visited := map[int]bool{X.Index: true}
	var arrivals []arrival
	var run func(prev, blk *ssa.BasicBlock, g *Term, depth int)
	run = func(prev, blk *ssa.BasicBlock, g *Term, depth int) {
		for {
			if blk == J {
				arrivals = append(arrivals, arrival{g, prev})
				return
			}
			if visited[blk.Index] || depth > 24 || len(visited) > 24 {
				panic(specAbort{})
			}
			if blk.Dominates(prev) {
				// entering a block over a back-edge would re-define SSA values of the
				// previous iteration that the other side of the branch may still read
				panic(specAbort{})
			}
			visited[blk.Index] = true
			fr.prevBlock, fr.block = prev, blk
			for _, in := range m.executePhis(fr) {
				switch in := in.(type) {
				case *ssa.Jump:
					prev, blk = blk, blk.Succs[0]
				case *ssa.If:
					c := fr.get(in.Cond).(*Term)
					if c.IsConst() {
						if c.C == 1 {
							prev, blk = blk, blk.Succs[0]
						} else {
							prev, blk = blk, blk.Succs[1]
						}
					} else {
						run(blk, blk.Succs[0], m.tt.And(g, c), depth+1)
						run(blk, blk.Succs[1], m.tt.And(g, m.tt.Not(c)), depth+1)
						return
					}
				default:
					if !pureInstr(in) {
						panic(specAbort{})
					}
					m.visitInstr(fr, in)
				}
			}
			depth++
		}
	}
	run(X, X.Succs[0], cond, 0)
	run(X, X.Succs[1], m.tt.Not(cond), 0)
	if len(arrivals) == 0 {
		panic(specAbort{})
	}
	// merge phis
	vals := make([]Value, len(phis))
	for pi, phi := range phis {
		var acc Value
		for k := len(arrivals) - 1; k >= 0; k-- {
			a := arrivals[k]
			idx := slices.Index(J.Preds, a.pred)
			if idx < 0 {
				panic(specAbort{})
			}
			v := fr.get(phi.Edges[idx])
			if acc == nil {
				acc = v
				continue
			}
			at, ok1 := acc.(*Term)
			vt, ok2 := v.(*Term)
			if ok1 && ok2 && at.S == vt.S {
				acc = m.tt.Ite(a.guard, vt, at)
				continue
			}
			panic(specAbort{})
		}
		vals[pi] = acc
	}
	for pi, phi := range phis {
		fr.env[phi] = vals[pi]
	}
	fr.prevBlock, fr.block = arrivals[0].pred, J
	fr.phisDone = true
	m.merges++
	if debugMerge {
		println("MERGE", fr.fn.String(), "block", X.Index, "join", J.Index, "arrivals", len(arrivals), "phis", len(phis))
	}
	return true
}

func pureInstr(in ssa.Instruction) bool {
	switch in := in.(type) {
	case *ssa.BinOp, *ssa.Convert, *ssa.ChangeType, *ssa.ChangeInterface, *ssa.MakeInterface,
		*ssa.Extract, *ssa.FieldAddr, *ssa.Field, *ssa.IndexAddr, *ssa.Index, *ssa.Slice, *ssa.DebugRef:
		return true
	case *ssa.UnOp:
		return in.Op != token.ARROW
	case *ssa.TypeAssert:
		return in.CommaOk
	case *ssa.Call:
		if b, ok := in.Call.Value.(*ssa.Builtin); ok {
			return b.Name() == "len" || b.Name() == "cap"
		}
	}
	return false
}
