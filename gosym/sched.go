package main

// Threads (goroutines of the program under test), scheduling decisions,
// channels, select, virtual clock and timers.

import (
	"fmt"
	"go/token"
	"go/types"
	"runtime"
	"sync"

	"golang.org/x/tools/go/ssa"
)

type Thread struct {
	id       int
	name     string
	resume   chan struct{}
	done     bool
	started  bool
	blocked  func() bool // nil = runnable
	wakeAt   int64       // deadline that can unblock it (0 = none)
	quiesce  bool        // waiting for quiescence
	isMain   bool
	fn       Value
	args     []Value
	recvOn   []*Chan // channels on which this thread is blocked receiving
	lastWhy  string
}

type timerEntry struct {
	id       int
	deadline int64
	active   bool
	period   int64
	ch       *Chan
	fn       Value // *Native or SSA func value to run on fire (AfterFunc spawns a thread)
	native   func(m *Machine)
	fired    bool
}

type pathEnd struct {
	outcome string
	why     string
}

// scheduler state lives in Machine; these are set up per path.
type schedState struct {
	endCh  chan pathEnd
	wg     sync.WaitGroup
	timers []*timerEntry
}

func (m *Machine) sched() *schedState {
	return m.ss
}

// runThreads runs the harness as the main thread and returns the path outcome.
func (m *Machine) runThreads(h *ssa.Function) (string, string) {
	s := m.sched()
	main := m.newThread("main", h, nil)
	main.isMain = true
	m.cur = main
	main.resume <- struct{}{}
	end := <-s.endCh
	// tear down
	m.tearing = true
	for _, t := range m.threads {
		if !t.done {
			select {
			case t.resume <- struct{}{}:
			default:
			}
		}
	}
	s.wg.Wait()
	return end.outcome, end.why
}

func (m *Machine) newThread(name string, fn Value, args []Value) *Thread {
	s := m.sched()
	if len(m.threads) >= m.cfg.MaxThreads {
		m.inconclusive("thread bound %d exceeded", m.cfg.MaxThreads)
	}
	t := &Thread{id: len(m.threads), name: name, resume: make(chan struct{}, 1), fn: fn, args: args}
	m.threads = append(m.threads, t)
	s.wg.Add(1)
	go m.threadMain(t, s)
	return t
}

func (m *Machine) threadMain(t *Thread, s *schedState) {
	defer s.wg.Done()
	<-t.resume
	if m.tearing {
		t.done = true
		return
	}
	t.started = true
	defer func() {
		p := recover()
		t.done = true
		if m.tearing {
			return
		}
		switch p := p.(type) {
		case nil:
			if t.isMain {
				m.endPath("ok", "")
				return
			}
			m.threadFinished(t)
		case threadExit:
			return
		case pathStop:
			m.endPath(p.kind, p.why)
		case targetPanic:
			m.endPath("panic", fmt.Sprintf("uncaught panic in thread %s: %s", t.name, m.panicString(p.v)))
		case hostError:
			m.endPath("engine-error", p.msg)
		default:
			buf := make([]byte, 1<<14)
			n := runtime.Stack(buf, false)
			m.endPath("engine-error", fmt.Sprintf("%v\n%s", p, buf[:n]))
		}
	}()
	m.call(nil, token.NoPos, t.fn, t.args)
}

func (m *Machine) panicString(v Value) string {
	if it, ok := v.(Iface); ok {
		if s, ok := it.V.(Str); ok {
			return s.String()
		}
		if it.T != nil {
			return "value of type " + it.T.String()
		}
	}
	return valString(v)
}

func (m *Machine) endPath(outcome, why string) {
	s := m.sched()
	select {
	case s.endCh <- pathEnd{outcome, why}:
	default:
	}
}

// threadFinished: a non-main thread returned; hand the baton on.
func (m *Machine) threadFinished(t *Thread) {
	defer func() {
		if p := recover(); p != nil {
			if ps, ok := p.(pathStop); ok {
				m.endPath(ps.kind, ps.why)
				return
			}
			if _, ok := p.(threadExit); ok {
				return
			}
			m.endPath("engine-error", fmt.Sprint(p))
		}
	}()
	next := m.pickNext(t)
	if next == nil {
		return // path ended (deadlock reported)
	}
	m.tracef("end %s -> %s", t.name, next.name)
	m.cur = next
	next.resume <- struct{}{}
}

func (m *Machine) runnable(t *Thread) bool {
	if t.done || t.quiesce {
		return false
	}
	return t.blocked == nil || t.blocked()
}

// pickNext chooses the next thread to run when `from` cannot continue.
// Advances the virtual clock when nothing is runnable. Returns nil after
// reporting a deadlock.
func (m *Machine) pickNext(from *Thread) *Thread {
	for iter := 0; ; iter++ {
		if iter > 100000 {
			m.inconclusive("scheduler made no progress (clock advance loop)")
		}
		var cands []*Thread
		for _, t := range m.threads {
			if t != from && m.runnable(t) {
				cands = append(cands, t)
			}
		}
		// the parked thread itself may have become runnable (its deadline passed)
		if from != nil && !from.done && !from.quiesce && from.blocked != nil && from.blocked() {
			cands = append(cands, from)
		}
		if len(cands) > 0 {
			k := m.choose("sched", len(cands))
			return cands[k]
		}
		if m.advanceClock() {
			continue
		}
		// quiescence waiters
		for _, t := range m.threads {
			if !t.done && t.quiesce && t != from {
				t.quiesce = false
				return t
			}
		}
		if from != nil && !from.done && from.quiesce {
			from.quiesce = false
			return from
		}
		// deadlock
		desc := ""
		for _, t := range m.threads {
			if !t.done {
				desc += fmt.Sprintf("[%s blocked: %s] ", t.name, t.lastWhy)
			}
		}
		m.endPath("deadlock", desc)
		panic(threadExit{})
	}
}

// advanceClock moves the clock to the earliest pending deadline (timers and
// timed waits) within the horizon and fires due timers. Returns false if
// there is none.
func (m *Machine) advanceClock() bool {
	s := m.sched()
	next := int64(-1)
	for _, te := range s.timers {
		if te.active && (next < 0 || te.deadline < next) {
			next = te.deadline
		}
	}
	for _, t := range m.threads {
		if !t.done && t.blocked != nil && t.wakeAt > m.clock && (next < 0 || t.wakeAt < next) {
			next = t.wakeAt
		}
	}
	if next < 0 || next > m.horizon {
		return false
	}
	if next <= m.clock {
		// a due timer that has not fired yet
		m.fireTimers()
		return true
	}
	if next > m.clock {
		m.clock = next
	}
	m.fireTimers()
	return true
}

func (m *Machine) fireTimers() {
	s := m.sched()
	for i := 0; i < len(s.timers); i++ {
		te := s.timers[i]
		if !te.active || te.deadline > m.clock {
			continue
		}
		te.fired = true
		if te.period > 0 {
			te.deadline += te.period
		} else {
			te.active = false
		}
		m.tracef("timer %d fires at %d", te.id, m.clock)
		switch {
		case te.native != nil:
			te.native(m)
		case te.ch != nil:
			if len(te.ch.buf) < te.ch.cap {
				te.ch.buf = append(te.ch.buf, m.timeValue(m.clock))
			}
		case te.fn != nil:
			m.newThread(fmt.Sprintf("timer%d", te.id), te.fn, nil)
		}
	}
}

func (m *Machine) addTimer(d int64) *timerEntry {
	s := m.sched()
	m.timerSeq++
	if d < 0 {
		d = 0
	}
	te := &timerEntry{id: m.timerSeq, deadline: m.clock + d, active: true}
	s.timers = append(s.timers, te)
	return te
}

// transfer hands the baton to next and parks the current thread.
func (m *Machine) transfer(next *Thread) {
	t := m.cur
	if next == t {
		return
	}
	m.tracef("switch %s -> %s [%s]", t.name, next.name, t.lastWhy)
	m.cur = next
	next.resume <- struct{}{}
	<-t.resume
	if m.tearing {
		panic(threadExit{})
	}
	m.cur = t
}

// yield is a scheduling point at which the current thread stays runnable.
func (m *Machine) yield(why string) {
	if m.cur == nil || m.tearing {
		return
	}
	if m.spec > 0 {
		panic(specAbort{})
	}
	if m.preemptions >= m.cfg.Preempt {
		return
	}
	t := m.cur
	var cands []*Thread
	for _, o := range m.threads {
		if o != t && m.runnable(o) {
			cands = append(cands, o)
		}
	}
	if len(cands) == 0 {
		return
	}
	k := m.choose("yield", len(cands)+1)
	if k == 0 {
		return
	}
	m.preemptions++
	m.tracef("preempt %s -> %s at %s", t.name, cands[k-1].name, why)
	m.transfer(cands[k-1])
}

// block parks the current thread until pred holds.
func (m *Machine) block(why string, wakeAt int64, pred func() bool) {
	t := m.cur
	for !pred() {
		t.blocked = pred
		t.wakeAt = wakeAt
		t.lastWhy = why
		next := m.pickNext(t)
		if next == nil {
			panic(threadExit{})
		}
		m.transfer(next)
	}
	t.blocked = nil
	t.wakeAt = 0
}

// waitQuiescence parks the calling thread until nothing else can run and no
// timer within the horizon is pending.
func (m *Machine) waitQuiescence() {
	t := m.cur
	t.quiesce = true
	t.lastWhy = "quiescence"
	next := m.pickNext(t)
	if next == nil {
		panic(threadExit{})
	}
	t.quiesce = false
	if next != t {
		t.quiesce = true
		m.transfer(next)
		t.quiesce = false
	}
}

func (m *Machine) spawn(fn Value, args []Value, pos token.Pos, env bool) {
	name := "go"
	switch f := fn.(type) {
	case *ssa.Function:
		name = f.Name()
	case *Closure:
		name = f.Fn.Name()
	}
	t := m.newThread(fmt.Sprintf("%s#%d", name, len(m.threads)), fn, args)
	_ = t
	m.yield("go")
}

// ---- channels ----

type pendingSend struct {
	v     Value
	taken bool
}

type Chan struct {
	cap         int
	buf         []Value
	closed      bool
	sendq       []*pendingSend
	recvWaiting int
	id          int
}

func (m *Machine) newChan(cap int) *Chan {
	n, _ := m.side["chanSeq"].(int)
	m.side["chanSeq"] = n + 1
	return &Chan{cap: cap, id: n}
}

func (c *Chan) recvReady() bool {
	return c != nil && (len(c.buf) > 0 || len(c.sendq) > 0 || c.closed)
}

func (c *Chan) sendReady() bool {
	return c != nil && (c.closed || len(c.buf) < c.cap || c.recvWaiting > len(c.sendq))
}

func (m *Machine) doRecv(c *Chan) (Value, bool) {
	if len(c.buf) > 0 {
		v := c.buf[0]
		c.buf = c.buf[1:]
		if len(c.sendq) > 0 {
			ps := c.sendq[0]
			c.sendq = c.sendq[1:]
			c.buf = append(c.buf, ps.v)
			ps.taken = true
		}
		return v, true
	}
	if len(c.sendq) > 0 {
		ps := c.sendq[0]
		c.sendq = c.sendq[1:]
		ps.taken = true
		return ps.v, true
	}
	return nil, false // closed
}

func (m *Machine) chanRecv(c *Chan, elemT types.Type) (Value, bool) {
	m.yield("recv")
	if c == nil {
		m.block("recv on nil chan", 0, func() bool { return false })
	}
	if !c.recvReady() {
		c.recvWaiting++
		m.block(fmt.Sprintf("chan %d recv", c.id), 0, c.recvReady)
		c.recvWaiting--
	}
	v, ok := m.doRecv(c)
	if !ok {
		return m.zero(elemT), false
	}
	return v, true
}

func (m *Machine) chanSend(c *Chan, v Value) {
	m.yield("send")
	if c == nil {
		m.block("send on nil chan", 0, func() bool { return false })
	}
	if c.closed {
		m.runtimePanic("send on closed channel")
	}
	v = copyVal(v)
	if len(c.buf) < c.cap {
		c.buf = append(c.buf, v)
		return
	}
	ps := &pendingSend{v: v}
	c.sendq = append(c.sendq, ps)
	m.block(fmt.Sprintf("chan %d send", c.id), 0, func() bool { return ps.taken || c.closed })
	if !ps.taken {
		m.runtimePanic("send on closed channel")
	}
}

func (m *Machine) chanClose(c *Chan) {
	if c == nil {
		m.runtimePanic("close of nil channel")
	}
	if c.closed {
		m.runtimePanic("close of closed channel")
	}
	c.closed = true
	m.yield("close")
}

func (m *Machine) selectOp(fr *frame, instr *ssa.Select) Value {
	m.yield("select")
	type cs struct {
		ch   *Chan
		send bool
		v    Value
	}
	cases := make([]cs, len(instr.States))
	for i, st := range instr.States {
		cases[i].ch = fr.get(st.Chan).(*Chan)
		if st.Dir == types.SendOnly {
			cases[i].send = true
			cases[i].v = fr.get(st.Send)
		}
	}
	ready := func() []int {
		var r []int
		for i, c := range cases {
			if c.send && c.ch.sendReady() || !c.send && c.ch.recvReady() {
				r = append(r, i)
			}
		}
		return r
	}
	r := ready()
	if len(r) == 0 {
		if !instr.Blocking {
			return m.selectResult(instr, -1, nil, false)
		}
		for _, c := range cases {
			if !c.send && c.ch != nil {
				c.ch.recvWaiting++
			}
		}
		m.block("select", 0, func() bool { return len(ready()) > 0 })
		for _, c := range cases {
			if !c.send && c.ch != nil {
				c.ch.recvWaiting--
			}
		}
		r = ready()
	}
	k := r[m.choose("select", len(r))]
	c := cases[k]
	if c.send {
		if c.ch.closed {
			m.runtimePanic("send on closed channel")
		}
		if len(c.ch.buf) < c.ch.cap {
			c.ch.buf = append(c.ch.buf, copyVal(c.v))
		} else {
			c.ch.sendq = append(c.ch.sendq, &pendingSend{v: copyVal(c.v)})
		}
		return m.selectResult(instr, k, nil, false)
	}
	v, ok := m.doRecv(c.ch)
	return m.selectResult(instr, k, v, ok)
}

func (m *Machine) selectResult(instr *ssa.Select, chosen int, recv Value, recvOk bool) Value {
	r := Tuple{m.tt.Const(64, uint64(int64(chosen))), m.tt.Bool(recvOk)}
	for i, st := range instr.States {
		if st.Dir == types.RecvOnly {
			var v Value
			if i == chosen && recvOk {
				v = recv
			} else {
				v = m.zero(under(st.Chan.Type()).(*types.Chan).Elem())
			}
			r = append(r, v)
		}
	}
	return r
}

// timeValue builds a time.Time (wall, ext, loc) for virtual instant ns.
const virtualEpochSec = 1_700_000_000
const unixToInternal = 62135596800

func (m *Machine) timeValue(ns int64) Value {
	sec := virtualEpochSec + ns/1e9
	nsec := ns % 1e9
	return Struct{m.tt.Const(64, uint64(nsec)), m.tt.Const(64, uint64(sec+unixToInternal)), Ptr(nil)}
}
