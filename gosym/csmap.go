package main

// Model of github.com/mhmtszr/concurrent-swiss-map: a linearizable association
// list; every operation is one atomic step preceded by a scheduling point.
// SetIf runs its condition callback under the key's shard lock as the library
// does: while the callback runs (it may contain scheduling points of its own)
// every other operation on the same key of the same map waits. The lock is
// modelled per key (the library's is per shard, i.e. coarser: the model allows
// a superset of the real interleavings); a symbolic key holds the whole map.
// Range runs f inline over a snapshot of the entries, in insertion order.

import (
	"go/token"
	"go/types"

	"golang.org/x/tools/go/ssa"
)

const csmapPkg = "github.com/mhmtszr/concurrent-swiss-map"

func csmapOf(m *Machine, v Value) *Map {
	p := v.(Ptr)
	if p == nil {
		m.runtimePanic("invalid memory address or nil pointer dereference (nil *CsMap)")
	}
	op, ok := (*p).(*Opaque)
	if !ok {
		m.inconclusive("CsMap not created through csmap.Create")
	}
	return op.Data.(*Map)
}

func csKey(k Value) (uint64, bool) {
	if t, ok := k.(*Term); ok && t.IsConst() {
		return t.C, true
	}
	return 0, false
}

// csWait blocks the calling thread while another thread holds the key (or the whole map).
func (m *Machine) csWait(mp *Map, k Value) {
	kv, conc := csKey(k)
	m.block("csmap shard lock", 0, func() bool {
		if mp.heldAll != nil && mp.heldAll != m.cur {
			return false
		}
		if !conc {
			for _, t := range mp.heldKey {
				if t != m.cur {
					return false
				}
			}
			return true
		}
		t := mp.heldKey[kv]
		return t == nil || t == m.cur
	})
}

func (m *Machine) csHold(mp *Map, k Value) func() {
	m.csWait(mp, k)
	if kv, conc := csKey(k); conc {
		if mp.heldKey == nil {
			mp.heldKey = map[uint64]*Thread{}
		}
		prev := mp.heldKey[kv]
		mp.heldKey[kv] = m.cur
		return func() {
			if prev == nil {
				delete(mp.heldKey, kv)
			} else {
				mp.heldKey[kv] = prev
			}
		}
	}
	prev := mp.heldAll
	mp.heldAll = m.cur
	return func() { mp.heldAll = prev }
}

func registerCsmap() {
	intrinsicTable[csmapPkg+".Create"] = func(m *Machine, c *frame, f *ssa.Function, a []Value) Value {
		// result *CsMap[K,V]; K is the first type argument
		var keyT types.Type = types.Typ[types.Int]
		if ta := f.TypeArgs(); len(ta) > 0 {
			keyT = ta[0]
		}
		cell := new(Value)
		*cell = &Opaque{Tag: "csmap", Data: &Map{KeyT: keyT}}
		return cell
	}
	intrinsicTable[csmapPkg+".WithSize"] = func(m *Machine, c *frame, f *ssa.Function, a []Value) Value {
		return (*ssa.Function)(nil)
	}
	intrinsicTable[csmapPkg+".WithShardCount"] = intrinsicTable[csmapPkg+".WithSize"]
	meth := func(name string) string { return "(*" + csmapPkg + ".CsMap[K, V])." + name }
	intrinsicTable[meth("Load")] = func(m *Machine, c *frame, f *ssa.Function, a []Value) Value {
		m.yield("csmap.Load")
		mp := csmapOf(m, a[0])
		m.csWait(mp, a[1])
		if e := m.mapFind(mp, a[1]); e != nil {
			return Tuple{copyVal(e.V), m.tt.True}
		}
		return Tuple{m.zero(f.Signature.Results().At(0).Type()), m.tt.False}
	}
	intrinsicTable[meth("Has")] = func(m *Machine, c *frame, f *ssa.Function, a []Value) Value {
		m.yield("csmap.Has")
		m.csWait(csmapOf(m, a[0]), a[1])
		return m.tt.Bool(m.mapFind(csmapOf(m, a[0]), a[1]) != nil)
	}
	intrinsicTable[meth("Store")] = func(m *Machine, c *frame, f *ssa.Function, a []Value) Value {
		m.yield("csmap.Store")
		m.csWait(csmapOf(m, a[0]), a[1])
		m.mapSet(csmapOf(m, a[0]), a[1], a[2])
		return nil
	}
	intrinsicTable[meth("Delete")] = func(m *Machine, c *frame, f *ssa.Function, a []Value) Value {
		m.yield("csmap.Delete")
		mp := csmapOf(m, a[0])
		m.csWait(mp, a[1])
		had := m.mapFind(mp, a[1]) != nil
		if had {
			m.mapDelete(mp, a[1])
		}
		return m.tt.Bool(had)
	}
	intrinsicTable[meth("Count")] = func(m *Machine, c *frame, f *ssa.Function, a []Value) Value {
		m.yield("csmap.Count")
		return m.tt.Const(64, uint64(len(csmapOf(m, a[0]).Entries)))
	}
	intrinsicTable[meth("SetIf")] = func(m *Machine, c *frame, f *ssa.Function, a []Value) Value {
		m.yield("csmap.SetIf")
		mp := csmapOf(m, a[0])
		release := m.csHold(mp, a[1])
		defer release()
		e := m.mapFind(mp, a[1])
		var prev Value
		found := e != nil
		if found {
			prev = copyVal(e.V)
		} else {
			prev = m.zero(f.Signature.Params().At(1).Type().Underlying().(*types.Signature).Params().At(0).Type())
		}
		r := m.call(c, token.NoPos, a[2], []Value{prev, m.tt.Bool(found)}).(Tuple)
		if m.branch(r[1].(*Term)) {
			if found {
				e.V = copyVal(r[0])
			} else {
				mp.Entries = append(mp.Entries, &mapEntry{copyVal(a[1]), copyVal(r[0])})
			}
		}
		return nil
	}
	intrinsicTable[meth("Range")] = func(m *Machine, c *frame, f *ssa.Function, a []Value) Value {
		m.yield("csmap.Range")
		mp := csmapOf(m, a[0])
		snap := append([]*mapEntry(nil), mp.Entries...)
		if m.mapOrderAll && len(snap) > 1 && len(snap) <= 3 {
			snap = permute(snap, m.choose("csmap.order", fact(len(snap))))
		}
		for _, e := range snap {
			stop := m.call(c, token.NoPos, a[1], []Value{copyVal(e.K), copyVal(e.V)}).(*Term)
			if m.branch(stop) {
				break
			}
		}
		return nil
	}
	intrinsicTable[meth("Clear")] = func(m *Machine, c *frame, f *ssa.Function, a []Value) Value {
		csmapOf(m, a[0]).Entries = nil
		return nil
	}
}
