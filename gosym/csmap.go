package main

// Model of github.com/mhmtszr/concurrent-swiss-map: a linearizable association
// list; every operation is one atomic step preceded by a scheduling point.
// Range runs f inline over a snapshot of the entries, in insertion order.

import (
	"go/token"
	"go/types"

	"golang.org/x/tools/go/ssa"
)

const csmapPkg = "github.com/mhmtszr/concurrent-swiss-map"

func csmapOf(m *Machine, v Value) *Map {
	p := v.(Ptr)
	if p == nil {
		m.runtimePanic("invalid memory address or nil pointer dereference (nil *CsMap)")
	}
	op, ok := (*p).(*Opaque)
	if !ok {
		m.inconclusive("CsMap not created through csmap.Create")
	}
	return op.Data.(*Map)
}

func registerCsmap() {
	intrinsicTable[csmapPkg+".Create"] = func(m *Machine, c *frame, f *ssa.Function, a []Value) Value {
		// result *CsMap[K,V]; K is the first type argument
		var keyT types.Type = types.Typ[types.Int]
		if ta := f.TypeArgs(); len(ta) > 0 {
			keyT = ta[0]
		}
		cell := new(Value)
		*cell = &Opaque{Tag: "csmap", Data: &Map{KeyT: keyT}}
		return cell
	}
	intrinsicTable[csmapPkg+".WithSize"] = func(m *Machine, c *frame, f *ssa.Function, a []Value) Value {
		return (*ssa.Function)(nil)
	}
	intrinsicTable[csmapPkg+".WithShardCount"] = intrinsicTable[csmapPkg+".WithSize"]
	meth := func(name string) string { return "(*" + csmapPkg + ".CsMap[K, V])." + name }
	intrinsicTable[meth("Load")] = func(m *Machine, c *frame, f *ssa.Function, a []Value) Value {
		m.yield("csmap.Load")
		mp := csmapOf(m, a[0])
		if e := m.mapFind(mp, a[1]); e != nil {
			return Tuple{copyVal(e.V), m.tt.True}
		}
		return Tuple{m.zero(f.Signature.Results().At(0).Type()), m.tt.False}
	}
	intrinsicTable[meth("Has")] = func(m *Machine, c *frame, f *ssa.Function, a []Value) Value {
		m.yield("csmap.Has")
		return m.tt.Bool(m.mapFind(csmapOf(m, a[0]), a[1]) != nil)
	}
	intrinsicTable[meth("Store")] = func(m *Machine, c *frame, f *ssa.Function, a []Value) Value {
		m.yield("csmap.Store")
		m.mapSet(csmapOf(m, a[0]), a[1], a[2])
		return nil
	}
	intrinsicTable[meth("Delete")] = func(m *Machine, c *frame, f *ssa.Function, a []Value) Value {
		m.yield("csmap.Delete")
		mp := csmapOf(m, a[0])
		had := m.mapFind(mp, a[1]) != nil
		if had {
			m.mapDelete(mp, a[1])
		}
		return m.tt.Bool(had)
	}
	intrinsicTable[meth("Count")] = func(m *Machine, c *frame, f *ssa.Function, a []Value) Value {
		m.yield("csmap.Count")
		return m.tt.Const(64, uint64(len(csmapOf(m, a[0]).Entries)))
	}
	intrinsicTable[meth("SetIf")] = func(m *Machine, c *frame, f *ssa.Function, a []Value) Value {
		m.yield("csmap.SetIf")
		mp := csmapOf(m, a[0])
		e := m.mapFind(mp, a[1])
		var prev Value
		found := e != nil
		if found {
			prev = copyVal(e.V)
		} else {
			prev = m.zero(f.Signature.Params().At(1).Type().Underlying().(*types.Signature).Params().At(0).Type())
		}
		r := m.call(c, token.NoPos, a[2], []Value{prev, m.tt.Bool(found)}).(Tuple)
		if m.branch(r[1].(*Term)) {
			if found {
				e.V = copyVal(r[0])
			} else {
				mp.Entries = append(mp.Entries, &mapEntry{copyVal(a[1]), copyVal(r[0])})
			}
		}
		return nil
	}
	intrinsicTable[meth("Range")] = func(m *Machine, c *frame, f *ssa.Function, a []Value) Value {
		m.yield("csmap.Range")
		mp := csmapOf(m, a[0])
		snap := append([]*mapEntry(nil), mp.Entries...)
		if m.mapOrderAll && len(snap) > 1 && len(snap) <= 3 {
			snap = permute(snap, m.choose("csmap.order", fact(len(snap))))
		}
		for _, e := range snap {
			stop := m.call(c, token.NoPos, a[1], []Value{copyVal(e.K), copyVal(e.V)}).(*Term)
			if m.branch(stop) {
				break
			}
		}
		return nil
	}
	intrinsicTable[meth("Clear")] = func(m *Machine, c *frame, f *ssa.Function, a []Value) Value {
		csmapOf(m, a[0]).Entries = nil
		return nil
	}
}
