package main

// Native model of context.Context (Background, WithCancel, WithTimeout, WithCancelCause).

import (
	"go/types"
	"golang.org/x/tools/go/ssa"
)

type ctxData struct {
	done     *Chan
	err      Value // Iface
	deadline int64
	hasDL    bool
	parent   *ctxData
	children []*ctxData
	timer    *timerEntry
	bg       bool
}

func (m *Machine) ctxBackground() Value {
	if v, ok := m.side["ctx.bg"]; ok {
		return v.(Value)
	}
	cd := &ctxData{bg: true, err: Iface{}}
	v := cd.iface()
	m.side["ctx.bg"] = v
	return v
}

func (cd *ctxData) iface() Value {
	return Iface{T: ctxT, V: &Opaque{Tag: "context", Data: cd}}
}

func (m *Machine) ctxDataOf(v Iface) *ctxData {
	if v.T == nil {
		m.runtimePanic("cannot create context from nil parent")
	}
	op, ok := v.V.(*Opaque)
	if !ok || op.Tag != "context" {
		m.inconclusive("context implementation outside the model: %v", v.T)
	}
	return op.Data.(*ctxData)
}

func (m *Machine) newCtx(parent Iface) *ctxData {
	p := m.ctxDataOf(parent)
	cd := &ctxData{done: m.newChan(0), err: Iface{}, parent: p, deadline: p.deadline, hasDL: p.hasDL}
	p.children = append(p.children, cd)
	if e, ok := p.err.(Iface); ok && e.T != nil {
		cd.cancel(m, p.err)
	}
	return cd
}

func (cd *ctxData) cancel(m *Machine, err Value) {
	if e := cd.err.(Iface); e.T != nil {
		return
	}
	cd.err = err
	if cd.done != nil && !cd.done.closed {
		cd.done.closed = true
	}
	if cd.timer != nil {
		cd.timer.active = false
	}
	for _, c := range cd.children {
		c.cancel(m, err)
	}
}

func (cd *ctxData) cancelFn(m *Machine, errName string) Value {
	return &Native{Name: "cancel", Fn: func(m *Machine, args []Value) Value {
		cd.cancel(m, m.ctxErr(errName))
		m.yield("cancel")
		return nil
	}}
}

// ctxErr loads context.Canceled / context.DeadlineExceeded.
func (m *Machine) ctxErr(name string) Value {
	pkg := m.prog.ssa.ImportedPackage("context")
	if pkg != nil {
		short := name[len("context."):]
		if g, ok := pkg.Members[short].(*ssa.Global); ok {
			v := m.load(m.globalAddr(g))
			if it, ok := v.(Iface); ok && it.T != nil {
				return it
			}
		}
	}
	return m.errorIface(name)
}

func (m *Machine) ctxWithDeadline(parent Iface, dl int64) Value {
	cd := m.newCtx(parent)
	if !cd.hasDL || dl < cd.deadline {
		cd.deadline, cd.hasDL = dl, true
	}
	te := m.addTimer(dl - m.clock)
	te.native = func(m *Machine) { cd.cancel(m, m.ctxErr("context.DeadlineExceeded")) }
	cd.timer = te
	return Tuple{cd.iface(), cd.cancelFn(m, "context.Canceled")}
}

func (m *Machine) ctxMethod(cd *ctxData, name string) *Native {
	switch name {
	case "Done":
		return &Native{Name: "ctx.Done", Fn: func(m *Machine, a []Value) Value { return cd.done }}
	case "Err":
		return &Native{Name: "ctx.Err", Fn: func(m *Machine, a []Value) Value { m.yield("ctx.Err"); return cd.err }}
	case "Deadline":
		return &Native{Name: "ctx.Deadline", Fn: func(m *Machine, a []Value) Value {
			if !cd.hasDL {
				// no deadline: the zero time.Time (IsZero() holds), as the real contexts return
				return Tuple{Struct{m.tt.Const(64, 0), m.tt.Const(64, 0), Ptr(nil)}, m.tt.False}
			}
			return Tuple{m.timeValue(cd.deadline), m.tt.True}
		}}
	case "Value":
		return &Native{Name: "ctx.Value", Fn: func(m *Machine, a []Value) Value { return Iface{} }}
	}
	return nil
}

var _ = types.Typ
