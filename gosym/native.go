package main

// Native replay: the same harness file is compiled into the real package with
// `go test -overlay` and run with the counterexample's values; the compiled
// code must fail the same assertion.

import (
	"encoding/json"
	"fmt"
	"os"
	"os/exec"
	"path/filepath"
	"strings"
	"time"
)

func nativeReplay(pkgDir string, replayPath string, label string, kind string) (bool, string) {
	tmp, err := os.MkdirTemp("/var/tmp", "verif-native-")
	if err != nil {
		return false, err.Error()
	}
	defer os.RemoveAll(tmp)
	harnessDir := filepath.Join(verifDir, "harness")
	repl := map[string]string{}
	files, _ := filepath.Glob(filepath.Join(harnessDir, harnessSubdir(pkgDir), "*.go"))
	for _, f := range files {
		repl[filepath.Join(repoDir, pkgDir, filepath.Base(f))] = f
	}
	tmpl, err := os.ReadFile(filepath.Join(harnessDir, "_rt", "rt.go.tmpl"))
	if err != nil {
		return false, err.Error()
	}
	name, err := packageNameOf(filepath.Join(repoDir, pkgDir))
	if err != nil {
		return false, err.Error()
	}
	rt := filepath.Join(tmp, "zz_verif_rt_test.go")
	os.WriteFile(rt, []byte(strings.Replace(string(tmpl), "package PKGNAME", "package "+name, 1)), 0o644)
	repl[filepath.Join(repoDir, pkgDir, "zz_verif_rt_test.go")] = rt
	ov, _ := json.Marshal(map[string]interface{}{"Replace": repl})
	ovPath := filepath.Join(tmp, "overlay.json")
	os.WriteFile(ovPath, ov, 0o644)
	cmd := exec.Command("go", "test", "-vet=off", "-count=1", "-run", "^TestVerifReplay$", "-v", "-overlay", ovPath, "./"+pkgDir)
	cmd.Dir = repoDir
	cmd.Env = append(os.Environ(), "GOFLAGS=-mod=mod", "GOPROXY=off", "GOSUMDB=off", "GOTOOLCHAIN=local",
		"VERIF_REPLAY="+replayPath, "VERIF_TIER="+tierGlobal, "GOCACHE="+goCacheDir())
	done := make(chan struct{})
	var out []byte
	go func() { out, err = cmd.CombinedOutput(); close(done) }()
	select {
	case <-done:
	case <-time.After(10 * time.Minute):
		cmd.Process.Kill()
		return false, "native replay timed out"
	}
	text := string(out)
	switch kind {
	case "assert":
		if strings.Contains(text, fmt.Sprintf("NATIVE-REPLAY: ASSERT-FAILED label=%q", label)) {
			return true, ""
		}
	case "panic":
		if strings.Contains(text, "NATIVE-REPLAY: PANIC") || strings.Contains(text, "panic:") {
			return true, ""
		}
	case "complete":
		if strings.Contains(text, "NATIVE-REPLAY: harness completed, no assertion failed") {
			return true, ""
		}
	}
	tail := text
	if len(tail) > 1500 {
		tail = tail[len(tail)-1500:]
	}
	return false, tail
}

// nativeRun runs a harness natively and reports whether it completed without a failed assertion.
func nativeRun(pkgDir, replayPath string) (bool, string) {
	ok, out := nativeReplay(pkgDir, replayPath, "\x00none", "complete")
	return ok, out
}

func goCacheDir() string {
	if d := os.Getenv("GOCACHE"); d != "" {
		return d
	}
	out, err := exec.Command("go", "env", "GOCACHE").Output()
	if err == nil {
		return strings.TrimSpace(string(out))
	}
	return "/root/.cache/go-build"
}
