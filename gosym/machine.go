package main

// Machine: per-worker interpreter state, path condition, decisions.

import (
	"fmt"
	"sort"
	"strings"

	"golang.org/x/tools/go/ssa"
)

type Config struct {
	MaxSteps   int
	MaxDepth   int
	MaxAlloc   int
	Unwind     int
	Preempt    int // context-switch (pre-emption) bound
	MaxThreads int
	Merge      bool // if-conversion of pure diamonds (state merging)
}

func defaultConfig() Config {
	return Config{MaxSteps: 2_000_000, MaxDepth: 200, MaxAlloc: 1 << 16, Unwind: 64, Preempt: 2, MaxThreads: 400}
}

type nondetRec struct {
	Name string
	T    *Term
}

type Violation struct {
	Label     string
	Pos       string
	Decisions []int
	Model     map[string]uint64
	Nondets   []string // names in creation order
	Trace     []string
	Kind      string // "assert", "panic", "deadlock"
	Chooses   []int  // the free decisions only (schedule, harness choose): replay vector
	HarnessChooses []int // harness-level choose() picks only (native replay)
}

type PathResult struct {
	Outcome    string // "ok", "assume", "inconclusive", "panic", "deadlock"
	Why        string
	Decisions  []int
	Alts       [][]int
	Violations []*Violation
	Covers     map[string]bool
	Steps      int
	Trace      []string
	Sample     map[string]uint64
	Asserts    int // assertion queries
	Proved     int // assertion queries answered unsat (or constant-true)
	Unknowns   int
	OverApprox bool
}

type Machine struct {
	prog *Program
	tt   *TermTable
	sol  *Solver
	cfg  Config

	// per path
	globals      map[*ssa.Global]Ptr
	pc           []*Term
	known        map[*Term]bool
	pcSent       int
	prefix       []int
	taken        []int
	kinds        []byte
	alts         [][]int
	nondets      []nondetRec
	nondetCount  map[string]int
	covers       map[string]bool
	violations   []*Violation
	steps        int
	depth        int
	unwind       int
	trace        []string
	asserts      int
	proved       int
	unknowns     int
	overApprox   bool
	sharedFields map[string]bool
	mapOrderAll  bool
	side         map[interface{}]interface{}
	replayModel  map[string]uint64 // when set: concrete replay, nondets take these values
	wantSample   bool
	spec         int // >0 while speculatively executing a pure region
	noIfConv     bool
	harnessChoose bool // the decision being taken is a harness-level choose()
	frozenSched  bool // harness asked for one deterministic schedule from here on
	merges       int

	// threads
	threads     []*Thread
	cur         *Thread
	preemptions int
	clock       int64
	horizon     int64
	tearing     bool
	timerSeq    int
	ss          *schedState

	funcsSeen map[*ssa.Function]bool
	harnessPkg *ssa.Package
	initDone  map[*ssa.Package]bool
}

func NewMachine(prog *Program, cfg Config, solverBin string, rlimit, tmo int) (*Machine, error) {
	sol, err := NewSolver(solverBin, rlimit, tmo)
	if err != nil {
		return nil, err
	}
	return &Machine{prog: prog, tt: NewTermTable(), sol: sol, cfg: cfg, funcsSeen: map[*ssa.Function]bool{}}, nil
}

func (m *Machine) resetPath(prefix []int) {
	m.globals = map[*ssa.Global]Ptr{}
	m.pc = m.pc[:0]
	m.known = map[*Term]bool{}
	m.pcSent = 0
	m.prefix = prefix
	m.taken = nil
	m.kinds = nil
	m.alts = nil
	m.nondets = nil
	m.nondetCount = map[string]int{}
	m.covers = map[string]bool{}
	m.violations = nil
	m.steps = 0
	m.depth = 0
	m.unwind = m.cfg.Unwind
	m.trace = nil
	m.asserts, m.proved, m.unknowns = 0, 0, 0
	m.overApprox = false
	m.sharedFields = map[string]bool{}
	m.mapOrderAll = false
	m.frozenSched = false
	m.noIfConv = !m.cfg.Merge
	m.side = map[interface{}]interface{}{}
	m.threads = nil
	m.cur = nil
	m.preemptions = 0
	m.clock = 0
	m.horizon = 1 << 62
	m.tearing = false
	m.timerSeq = 0
	m.ss = &schedState{endCh: make(chan pathEnd, 64)}
	m.initDone = map[*ssa.Package]bool{}
	// keep the term table bounded
	if m.tt.next > 2_000_000 {
		m.tt = NewTermTable()
	}
}

// ---- path condition ----

func (m *Machine) addPC(c *Term) {
	if c.IsTrue() {
		return
	}
	m.pc = append(m.pc, c)
	// remember literal truth values so that re-testing the same condition costs nothing
	if c.Op == ONot {
		m.known[c.Args[0]] = false
	} else {
		m.known[c] = true
	}
}

func (m *Machine) syncPC() {
	for m.pcSent < len(m.pc) {
		m.sol.Assert(m.pc[m.pcSent])
		m.pcSent++
	}
}

func (m *Machine) feasible(c *Term) SatResult {
	if m.replayModel != nil {
		panic("solver query during concrete replay")
	}
	m.syncPC()
	return m.sol.Check(c)
}

// decide records/replays one decision with n alternatives. feas(i) reports
// whether alternative i is feasible (called only for new decisions).
// Returns the chosen alternative, or -1 if none is feasible.
func (m *Machine) decide(n int, feas func(i int) bool) int {
	pos := len(m.taken)
	if pos < len(m.prefix) {
		pick := m.prefix[pos]
		m.taken = append(m.taken, pick)
		m.kinds = append(m.kinds, m.chooseKind())
		return pick
	}
	first := -1
	for i := 0; i < n; i++ {
		if feas(i) {
			if first < 0 {
				first = i
			} else {
				alt := make([]int, pos+1)
				copy(alt, m.taken)
				alt[pos] = i
				m.alts = append(m.alts, alt)
			}
		}
	}
	if first < 0 {
		return -1
	}
	m.taken = append(m.taken, first)
	m.kinds = append(m.kinds, m.chooseKind())
	return first
}

// branch forks on a Bool term. Returns the direction taken on this path.
func (m *Machine) branch(c *Term) bool {
	if c.IsConst() {
		return c.C == 1
	}
	if v, ok := m.known[c]; ok {
		return v
	}
	if c.Op == ONot {
		if v, ok := m.known[c.Args[0]]; ok {
			return !v
		}
	}
	if m.spec > 0 {
		panic(specAbort{})
	}
	if m.replayModel != nil {
		v := m.evalConcrete(c)
		return v == 1
	}
	pos := len(m.taken)
	if pos < len(m.prefix) {
		pick := m.prefix[pos]
		m.taken = append(m.taken, pick)
		m.kinds = append(m.kinds, 'b')
		if pick == 0 {
			m.addPC(c)
			return true
		}
		m.addPC(m.tt.Not(c))
		return false
	}
	// new decision: alternative 0 = true, 1 = false. Forced branches are
	// recorded too so that replaying a prefix needs no solver.
	rt := m.feasible(c)
	var rf SatResult
	if rt == Unsat {
		rf = Sat // PC is satisfiable by construction
	} else {
		rf = m.feasible(m.tt.Not(c))
	}
	if rt == Unknown || rf == Unknown {
		m.overApprox = true
	}
	tOK := rt != Unsat
	fOK := rf != Unsat
	switch {
	case tOK && fOK:
		alt := make([]int, pos+1)
		copy(alt, m.taken)
		alt[pos] = 1
		m.alts = append(m.alts, alt)
		m.taken = append(m.taken, 0)
		m.kinds = append(m.kinds, 'b')
		m.addPC(c)
		return true
	case tOK:
		m.taken = append(m.taken, 0)
		m.kinds = append(m.kinds, 'b')
		m.addPC(c)
		return true
	case fOK:
		m.taken = append(m.taken, 1)
		m.kinds = append(m.kinds, 'b')
		m.addPC(m.tt.Not(c))
		return false
	}
	panic(pathStop{kind: "assume", why: "infeasible path condition"})
}

func (m *Machine) chooseKind() byte {
	if m.harnessChoose {
		return 'h'
	}
	return 'c'
}

// choose picks a value in [0,n) — a free decision (scheduling, harness choice).
func (m *Machine) choose(what string, n int) int {
	if n <= 1 {
		return 0
	}
	if m.frozenSched && (what == "sched" || what == "yield" || what == "select") {
		return 0
	}
	if m.replayModel != nil {
		// replay: decisions come from the recorded vector
		pos := len(m.taken)
		if pos < len(m.prefix) {
			m.taken = append(m.taken, m.prefix[pos])
			m.kinds = append(m.kinds, m.chooseKind())
			return m.prefix[pos]
		}
		m.taken = append(m.taken, 0)
		m.kinds = append(m.kinds, m.chooseKind())
		return 0
	}
	return m.decide(n, func(int) bool { return true })
}

// ---- harness primitives ----

func (m *Machine) freshVar(name string, s Sort) *Term {
	k := m.nondetCount[name]
	m.nondetCount[name] = k + 1
	full := fmt.Sprintf("%s#%d", name, k)
	if m.replayModel != nil {
		v := m.replayModel[full]
		m.nondets = append(m.nondets, nondetRec{full, nil})
		switch s.K {
		case SBool:
			return m.tt.Bool(v != 0)
		case SBV:
			return m.tt.Const(int(s.W), v)
		default:
			return m.tt.mk(OConst, FPSort, nil, v, "", 0, 0)
		}
	}
	t := m.tt.Var(full, s)
	m.nondets = append(m.nondets, nondetRec{full, t})
	return t
}

func (m *Machine) assume(c *Term) {
	if c.IsTrue() {
		return
	}
	if c.IsFalse() {
		panic(pathStop{kind: "assume", why: "assume(false)"})
	}
	if m.replayModel != nil {
		if m.evalConcrete(c) != 1 {
			panic(pathStop{kind: "assume", why: "assume false in replay"})
		}
		return
	}
	pos := len(m.taken)
	if pos < len(m.prefix) {
		m.taken = append(m.taken, m.prefix[pos])
		m.kinds = append(m.kinds, 'b')
		m.addPC(c)
		return
	}
	r := m.feasible(c)
	if r == Unsat {
		panic(pathStop{kind: "assume", why: "assumption infeasible"})
	}
	if r == Unknown {
		m.overApprox = true
	}
	m.taken = append(m.taken, 0)
	m.kinds = append(m.kinds, 'b')
	m.addPC(c)
}

func (m *Machine) nondetVars() []*Term {
	var vs []*Term
	seen := map[*Term]bool{}
	for _, n := range m.nondets {
		if n.T != nil && !seen[n.T] {
			seen[n.T] = true
			vs = append(vs, n.T)
		}
	}
	return vs
}

func (m *Machine) recordViolation(kind, label, pos string, model map[string]uint64) {
	v := &Violation{Kind: kind, Label: label, Pos: pos, Model: model,
		Decisions: append([]int(nil), m.taken...), Trace: append([]string(nil), m.trace...)}
	for i, k := range m.kinds {
		if k == 'c' || k == 'h' {
			v.Chooses = append(v.Chooses, m.taken[i])
		}
		if k == 'h' {
			v.HarnessChooses = append(v.HarnessChooses, m.taken[i])
		}
	}
	for _, n := range m.nondets {
		v.Nondets = append(v.Nondets, n.Name)
	}
	m.violations = append(m.violations, v)
}

func (m *Machine) assertTerm(c *Term, label, pos string) {
	m.asserts++
	if c.IsTrue() {
		m.proved++
		return
	}
	if m.replayModel != nil {
		if c.IsFalse() || m.evalConcrete(c) != 1 {
			m.recordViolation("assert", label, pos, m.replayModel)
			panic(pathStop{kind: "violation", why: label})
		}
		return
	}
	if len(m.taken) < len(m.prefix) {
		// still replaying the parent's prefix: this assertion was decided on the
		// parent path under the identical path condition
		m.asserts--
		m.addPC(c)
		return
	}
	neg := m.tt.Not(c)
	m.syncPC()
	model, r := m.sol.Model(neg, m.nondetVars())
	switch r {
	case Unsat:
		m.proved++
		return
	case Unknown:
		m.unknowns++
		m.trace = append(m.trace, "UNKNOWN assertion "+label)
		return
	}
	m.recordViolation("assert", label, pos, model)
	// continue under the assumption that the assertion held
	if c.IsFalse() {
		panic(pathStop{kind: "violation", why: label})
	}
	if m.feasible(c) == Unsat {
		panic(pathStop{kind: "violation", why: label})
	}
	m.addPC(c)
}

// evalConcrete evaluates a term when all variables are bound (replay mode has
// no variables at all, so every term is already constant).
func (m *Machine) evalConcrete(c *Term) uint64 {
	if c.IsConst() {
		return c.C
	}
	panic("evalConcrete: non-constant term in replay: " + c.String())
}

func (m *Machine) tracef(format string, args ...interface{}) {
	if len(m.trace) < 400 {
		m.trace = append(m.trace, fmt.Sprintf(format, args...))
	}
}

// ---- running one path ----

func (m *Machine) RunPath(h *ssa.Function, prefix []int) (res *PathResult) {
	m.resetPath(prefix)
	m.harnessPkg = h.Pkg
	if m.replayModel == nil {
		m.sol.BeginPath()
	}
	res = &PathResult{}
	outcome, why := m.runThreads(h)
	res.Outcome, res.Why = outcome, why
	if outcome == "panic" || outcome == "deadlock" {
		allow := false
		if outcome == "panic" {
			allow, _ = m.side["allowCrash"].(bool)
		} else {
			allow, _ = m.side["allowDeadlock"].(bool)
		}
		if allow {
			res.Outcome = outcome + "-allowed"
		} else {
			var model map[string]uint64
			if m.replayModel == nil {
				m.syncPC()
				model, _ = m.sol.Model(nil, m.nondetVars())
			} else {
				model = m.replayModel
			}
			label := "unexpected-panic"
			if outcome == "deadlock" {
				label = "deadlock"
			}
			m.recordViolation(outcome, label, why, model)
		}
	}
	if m.replayModel == nil {
		if outcome == "ok" && m.wantSample {
			m.syncPC()
			if model, r := m.sol.Model(nil, m.nondetVars()); r == Sat {
				res.Sample = model
			}
		}
		m.sol.EndPath()
	}
	res.Decisions = m.taken
	res.Alts = m.alts
	res.Violations = m.violations
	res.Covers = m.covers
	res.Steps = m.steps
	res.Trace = m.trace
	res.Asserts, res.Proved, res.Unknowns = m.asserts, m.proved, m.unknowns
	res.OverApprox = m.overApprox
	return res
}

func (m *Machine) funcList() []string {
	var out []string
	for fn := range m.funcsSeen {
		if fn.Pkg == nil && fn.Origin() == nil && fn.Parent() == nil {
			continue
		}
		if isHarnessFile(m.prog.ssa.Fset.Position(fn.Pos()).Filename) {
			continue // harness code, fakes and stubs are not "functions encoded"
		}
		out = append(out, fn.String())
	}
	sort.Strings(out)
	return out
}

func isHarnessFile(name string) bool { return strings.Contains(name, "zz_verif_") }
