package main

import (
	"fmt"
	"go/constant"
	"go/token"
	"go/types"

	"golang.org/x/tools/go/ssa"
)

func constantStringVal(c *ssa.Const) string { return constant.StringVal(c.Value) }

func (m *Machine) unop(fr *frame, instr *ssa.UnOp, x Value) Value {
	switch instr.Op {
	case token.ARROW:
		v, ok := m.chanRecv(x.(*Chan), under(instr.X.Type()).(*types.Chan).Elem())
		if !instr.CommaOk {
			return v
		}
		return Tuple{v, m.tt.Bool(ok)}
	case token.SUB:
		t := x.(*Term)
		if t.S.K == SFP {
			return m.tt.FpNeg(t)
		}
		return m.tt.BvNeg(t)
	case token.MUL:
		return m.load(x.(Ptr))
	case token.NOT:
		return m.tt.Not(x.(*Term))
	case token.XOR:
		return m.tt.BvNot(x.(*Term))
	}
	panic(fmt.Sprintf("invalid unary op %s", instr.Op))
}

func (m *Machine) binop(op token.Token, t types.Type, x, y Value) Value {
	switch op {
	case token.EQL:
		if isNilConstLike(x) || isNilConstLike(y) {
			return m.eqnil(x, y)
		}
		return m.equals(t, x, y)
	case token.NEQ:
		if isNilConstLike(x) || isNilConstLike(y) {
			return m.tt.Not(m.eqnil(x, y))
		}
		return m.tt.Not(m.equals(t, x, y))
	}
	switch xv := x.(type) {
	case Str:
		ys := y.(Str)
		switch op {
		case token.ADD:
			r := make(Str, 0, len(xv)+len(ys))
			r = append(r, xv...)
			r = append(r, ys...)
			return r
		case token.LSS, token.LEQ, token.GTR, token.GEQ:
			return m.strCmp(op, xv, ys)
		}
		panic("string binop " + op.String())
	case *Term:
		yt := y.(*Term)
		if xv.S.K == SFP {
			switch op {
			case token.ADD:
				return m.tt.FpBin(OFpAdd, xv, yt)
			case token.SUB:
				return m.tt.FpBin(OFpSub, xv, yt)
			case token.MUL:
				return m.tt.FpBin(OFpMul, xv, yt)
			case token.QUO:
				return m.tt.FpBin(OFpDiv, xv, yt)
			case token.LSS:
				return m.tt.FpCmp(OFpLt, xv, yt)
			case token.LEQ:
				return m.tt.FpCmp(OFpLe, xv, yt)
			case token.GTR:
				return m.tt.FpCmp(OFpLt, yt, xv)
			case token.GEQ:
				return m.tt.FpCmp(OFpLe, yt, xv)
			}
			panic("float binop " + op.String())
		}
		if xv.S.K == SBool {
			switch op {
			case token.AND, token.LAND:
				return m.tt.And(xv, yt)
			case token.OR, token.LOR:
				return m.tt.Or(xv, yt)
			}
			panic("bool binop " + op.String())
		}
		_, signed, _ := basicInfo(t)
		w := int(xv.S.W)
		switch op {
		case token.ADD:
			return m.tt.BvBin(OBvAdd, xv, yt)
		case token.SUB:
			return m.tt.BvBin(OBvSub, xv, yt)
		case token.MUL:
			return m.tt.BvBin(OBvMul, xv, yt)
		case token.QUO, token.REM:
			zero := m.tt.Const(w, 0)
			if m.branch(m.tt.Eq(yt, zero)) {
				m.runtimePanic("integer divide by zero")
			}
			if signed {
				if op == token.QUO {
					return m.tt.BvBin(OBvSDiv, xv, yt)
				}
				return m.tt.BvBin(OBvSRem, xv, yt)
			}
			if op == token.QUO {
				return m.tt.BvBin(OBvUDiv, xv, yt)
			}
			return m.tt.BvBin(OBvURem, xv, yt)
		case token.AND:
			return m.tt.BvBin(OBvAnd, xv, yt)
		case token.OR:
			return m.tt.BvBin(OBvOr, xv, yt)
		case token.XOR:
			return m.tt.BvBin(OBvXor, xv, yt)
		case token.AND_NOT:
			return m.tt.BvBin(OBvAnd, xv, m.tt.BvNot(yt))
		case token.SHL, token.SHR:
			// shift count: unsigned (or checked non-negative) of any width
			cnt := yt
			if int(cnt.S.W) != w {
				if int(cnt.S.W) > w {
					// large counts: saturate
					big := m.tt.BvCmp(OBvUle, m.tt.Const(int(cnt.S.W), uint64(w)), cnt)
					cnt = m.tt.Ite(big, m.tt.Const(w, uint64(w)), m.tt.Resize(cnt, w, false))
				} else {
					cnt = m.tt.Resize(cnt, w, false)
				}
			}
			if op == token.SHL {
				return m.tt.BvBin(OBvShl, xv, cnt)
			}
			if signed {
				return m.tt.BvBin(OBvAshr, xv, cnt)
			}
			return m.tt.BvBin(OBvLshr, xv, cnt)
		case token.LSS:
			if signed {
				return m.tt.BvCmp(OBvSlt, xv, yt)
			}
			return m.tt.BvCmp(OBvUlt, xv, yt)
		case token.LEQ:
			if signed {
				return m.tt.BvCmp(OBvSle, xv, yt)
			}
			return m.tt.BvCmp(OBvUle, xv, yt)
		case token.GTR:
			if signed {
				return m.tt.BvCmp(OBvSlt, yt, xv)
			}
			return m.tt.BvCmp(OBvUlt, yt, xv)
		case token.GEQ:
			if signed {
				return m.tt.BvCmp(OBvSle, yt, xv)
			}
			return m.tt.BvCmp(OBvUle, yt, xv)
		}
	}
	panic(fmt.Sprintf("invalid binary op: %T %s %T", x, op, y))
}

func (m *Machine) strCmp(op token.Token, a, b Str) *Term {
	// lexicographic: build lt, eq terms
	n := len(a)
	if len(b) < n {
		n = len(b)
	}
	// lt = exists first differing position with a[i]<b[i], or prefix and len(a)<len(b)
	lt := m.tt.Bool(len(a) < len(b))
	eq := m.tt.Bool(len(a) == len(b))
	for i := n - 1; i >= 0; i-- {
		bl := m.tt.BvCmp(OBvUlt, a[i], b[i])
		be := m.tt.Eq(a[i], b[i])
		lt = m.tt.Or(bl, m.tt.And(be, lt))
		eq = m.tt.And(be, eq)
	}
	switch op {
	case token.LSS:
		return lt
	case token.LEQ:
		return m.tt.Or(lt, eq)
	case token.GTR:
		return m.tt.Not(m.tt.Or(lt, eq))
	default:
		return m.tt.Not(lt)
	}
}

func isNilConstLike(v Value) bool { return false }

func (m *Machine) eqnil(x, y Value) *Term { panic("unreachable") }

func (m *Machine) lookup(instr *ssa.Lookup, x, idx Value) Value {
	switch x := x.(type) {
	case *Map:
		var v Value
		var ok bool
		if e := m.mapFind(x, idx); e != nil {
			v, ok = copyVal(e.V), true
		} else {
			v = m.zero(under(instr.X.Type()).(*types.Map).Elem())
		}
		if instr.CommaOk {
			return Tuple{v, m.tt.Bool(ok)}
		}
		return v
	case Str:
		i := m.indexCheck(idx.(*Term), instr.Index.Type(), len(x))
		return x[i]
	}
	panic(fmt.Sprintf("unexpected x type in Lookup: %T", x))
}

// sliceOp implements x[lo:hi:max].
func (m *Machine) sliceOp(instr *ssa.Slice, x, lo, hi, max Value) Value {
	if ss, ok := x.(*SymSlice); ok {
		return m.symSliceOp(ss, lo, hi, max)
	}
	var Len, Cap int
	switch x := x.(type) {
	case Str:
		Len, Cap = len(x), len(x)
	case Slice:
		Len, Cap = len(x), cap(x)
	case Ptr:
		if x == nil {
			m.runtimePanic("slice of nil array pointer")
		}
		a := (*x).(Array)
		Len, Cap = len(a), len(a)
	default:
		panic(fmt.Sprintf("slice: unexpected X type: %T", x))
	}
	conc := func(v Value, what string) (int, bool) {
		if v == nil {
			return 0, false
		}
		t := v.(*Term)
		if !t.IsConst() {
			// fork over feasible values 0..Cap
			w := int(t.S.W)
			for i := 0; i <= Cap; i++ {
				if m.branch(m.tt.Eq(t, m.tt.Const(w, uint64(i)))) {
					return i, true
				}
			}
			m.runtimePanic("slice bounds out of range (symbolic " + what + ")")
		}
		return int(t.SVal()), true
	}
	l, _ := conc(lo, "low")
	h, hok := conc(hi, "high")
	if !hok {
		h = Len
	}
	mx, mok := conc(max, "max")
	if !mok {
		mx = Cap
	}
	_, isStr := x.(Str)
	limit := Cap
	if isStr {
		limit = Len
	}
	if l < 0 || h < l || h > limit || mx < h || mx > Cap {
		m.runtimePanic(fmt.Sprintf("slice bounds out of range [%d:%d:%d] with capacity %d", l, h, mx, Cap))
	}
	switch x := x.(type) {
	case Str:
		return x[l:h]
	case Slice:
		if x == nil {
			return Slice(nil)
		}
		return x[l:h:mx]
	case Ptr:
		return Slice((*x).(Array)[l:h:mx])
	}
	panic("unreachable")
}

// symSliceOp: slicing with fully symbolic offsets; each Go bounds check is a
// solver-decided branch.
func (m *Machine) symSliceOp(ss *SymSlice, lo, hi, max Value) Value {
	tt := m.tt
	l := tt.Const(64, 0)
	if lo != nil {
		l = tt.Resize(lo.(*Term), 64, true)
	}
	h := ss.Len
	if hi != nil {
		h = tt.Resize(hi.(*Term), 64, true)
	}
	mx := ss.Cap
	if max != nil {
		mx = tt.Resize(max.(*Term), 64, true)
	}
	ok := tt.And(tt.BvCmp(OBvSle, tt.Const(64, 0), l),
		tt.And(tt.BvCmp(OBvSle, l, h),
			tt.And(tt.BvCmp(OBvSle, h, mx), tt.BvCmp(OBvSle, mx, ss.Cap))))
	if !m.branch(ok) {
		m.runtimePanic("slice bounds out of range (symbolic)")
	}
	return &SymSlice{
		Off:  tt.BvBin(OBvAdd, ss.Off, l),
		Len:  tt.BvBin(OBvSub, h, l),
		Cap:  tt.BvBin(OBvSub, mx, l),
		Elem: ss.Elem,
	}
}

func (m *Machine) typeAssert(instr *ssa.TypeAssert, itf Iface) Value {
	var v Value
	err := ""
	if itf.T == nil {
		err = fmt.Sprintf("interface conversion: interface is nil, not %s", instr.AssertedType)
	} else if idst, ok := under(instr.AssertedType).(*types.Interface); ok {
		v = itf
		if !m.implements(itf, idst) {
			err = fmt.Sprintf("interface conversion: %v does not implement %v", itf.T, instr.AssertedType)
		}
	} else if types.Identical(itf.T, instr.AssertedType) {
		v = itf.V
	} else {
		err = fmt.Sprintf("interface conversion: interface is %s, not %s", itf.T, instr.AssertedType)
	}
	if err != "" {
		if !instr.CommaOk {
			m.runtimePanic(err)
		}
		return Tuple{m.zero(instr.AssertedType), m.tt.False}
	}
	if instr.CommaOk {
		return Tuple{v, m.tt.True}
	}
	return v
}

func (m *Machine) implements(itf Iface, idst *types.Interface) bool {
	if op, ok := itf.V.(*Opaque); ok {
		for i := 0; i < idst.NumMethods(); i++ {
			if m.opaqueMethod(op, idst.Method(i).Name()) == nil {
				return false
			}
		}
		return true
	}
	return types.Implements(itf.T, idst)
}

// ---- conversions ----

func (m *Machine) conv(tDst, tSrc types.Type, x Value) Value {
	ud := under(tDst)
	us := under(tSrc)
	switch us := us.(type) {
	case *types.Pointer:
		return x // unsafe.Pointer conversions keep the cell pointer
	case *types.Slice:
		// []byte / []rune -> string
		if db, ok := ud.(*types.Basic); ok && db.Info()&types.IsString != 0 {
			if eb, ok := under(us.Elem()).(*types.Basic); ok && eb.Kind() == types.Uint8 {
				s := x.(Slice)
				r := make(Str, len(s))
				for i := range s {
					r[i] = s[i].(*Term)
				}
				return r
			}
			m.inconclusive("[]rune -> string conversion unsupported")
		}
		return x
	case *types.Basic:
		if us.Kind() == types.UnsafePointer {
			return x
		}
		if us.Info()&types.IsString != 0 {
			switch d := ud.(type) {
			case *types.Slice:
				if eb, ok := under(d.Elem()).(*types.Basic); ok && eb.Kind() == types.Uint8 {
					s := x.(Str)
					r := make(Slice, len(s))
					for i := range s {
						r[i] = s[i]
					}
					return r
				}
				m.inconclusive("string -> []rune conversion unsupported")
			case *types.Basic:
				if d.Info()&types.IsString != 0 {
					return x
				}
			}
			panic(fmt.Sprintf("conv from string to %v", tDst))
		}
		db, ok := ud.(*types.Basic)
		if !ok {
			panic(fmt.Sprintf("conv %v -> %v", tSrc, tDst))
		}
		sw, ssigned, skind := basicInfo(us)
		dw, dsigned, dkind := basicInfo(db)
		t := x.(*Term)
		switch {
		case skind == "int" && dkind == "int":
			_ = sw
			return m.tt.Resize(t, dw, ssigned)
		case skind == "int" && dkind == "float":
			return m.tt.FpFromBV(t, ssigned)
		case skind == "float" && dkind == "int":
			return m.tt.FpToBV(t, dw, dsigned)
		case skind == "float" && dkind == "float":
			return t
		case skind == "int" && dkind == "string":
			if !t.IsConst() {
				m.inconclusive("string(int) of symbolic value")
			}
			return m.strOf(string(rune(t.SVal())))
		case skind == "bool" && dkind == "bool":
			return t
		}
	}
	panic(fmt.Sprintf("unsupported conversion %v -> %v", tSrc, tDst))
}

// ---- builtins ----

func (m *Machine) callBuiltin(caller *frame, pos token.Pos, fn *ssa.Builtin, args []Value) Value {
	switch fn.Name() {
	case "append":
		if len(args) == 1 {
			return args[0]
		}
		if s, ok := args[1].(Str); ok {
			// append([]byte, string...)
			dst := args[0].(Slice)
			r := make(Slice, 0, len(dst)+len(s))
			r = append(r, dst...)
			for _, b := range s {
				r = append(r, b)
			}
			return r
		}
		dst := args[0].(Slice)
		src := args[1].(Slice)
		if len(src) == 0 {
			return dst
		}
		if len(dst)+len(src) <= cap(dst) {
			// in place (aliasing semantics preserved)
			r := dst[:len(dst)+len(src)]
			for i := range src {
				r[len(dst)+i] = copyVal(src[i])
			}
			return r
		}
		nc := 2 * cap(dst)
		if nc < len(dst)+len(src) {
			nc = len(dst) + len(src)
		}
		r := make(Slice, len(dst), nc)
		copy(r, dst)
		for i := range r {
			r[i] = copyVal(r[i])
		}
		for _, v := range src {
			r = append(r, copyVal(v))
		}
		// fill spare capacity lazily with nil (zeroed on reslice is unsupported) - keep exact cap
		return r
	case "copy":
		dst := args[0].(Slice)
		n := 0
		switch src := args[1].(type) {
		case Slice:
			n = len(dst)
			if len(src) < n {
				n = len(src)
			}
			tmp := make([]Value, n)
			for i := 0; i < n; i++ {
				tmp[i] = copyVal(src[i])
			}
			copy(dst, tmp)
		case Str:
			n = len(dst)
			if len(src) < n {
				n = len(src)
			}
			for i := 0; i < n; i++ {
				dst[i] = src[i]
			}
		}
		return m.tt.Const(64, uint64(n))
	case "close":
		m.chanClose(args[0].(*Chan))
		return nil
	case "delete":
		m.mapDelete(args[0].(*Map), args[1])
		return nil
	case "print", "println":
		return nil
	case "len":
		switch x := args[0].(type) {
		case Str:
			return m.tt.Const(64, uint64(len(x)))
		case Array:
			return m.tt.Const(64, uint64(len(x)))
		case Ptr:
			return m.tt.Const(64, uint64(len((*x).(Array))))
		case Slice:
			return m.tt.Const(64, uint64(len(x)))
		case *SymSlice:
			return x.Len
		case *Map:
			if x == nil {
				return m.tt.Const(64, 0)
			}
			return m.tt.Const(64, uint64(len(x.Entries)))
		case *Chan:
			if x == nil {
				return m.tt.Const(64, 0)
			}
			return m.tt.Const(64, uint64(len(x.buf)))
		}
		panic(fmt.Sprintf("len: illegal operand: %T", args[0]))
	case "cap":
		switch x := args[0].(type) {
		case Array:
			return m.tt.Const(64, uint64(len(x)))
		case Ptr:
			return m.tt.Const(64, uint64(len((*x).(Array))))
		case Slice:
			return m.tt.Const(64, uint64(cap(x)))
		case *SymSlice:
			return x.Cap
		case *Chan:
			if x == nil {
				return m.tt.Const(64, 0)
			}
			return m.tt.Const(64, uint64(x.cap))
		}
		panic(fmt.Sprintf("cap: illegal operand: %T", args[0]))
	case "min", "max":
		acc := args[0]
		for _, x := range args[1:] {
			at, ok1 := acc.(*Term)
			xt, ok2 := x.(*Term)
			if !ok1 || !ok2 || at.S.K != SBV {
				m.inconclusive("builtin %s on non-integer operands", fn.Name())
			}
			_, signed, _ := basicInfo(fn.Type().(*types.Signature).Params().At(0).Type())
			var lt *Term
			if signed {
				lt = m.tt.BvCmp(OBvSlt, xt, at)
			} else {
				lt = m.tt.BvCmp(OBvUlt, xt, at)
			}
			if fn.Name() == "max" {
				lt = m.tt.Not(m.tt.Or(lt, m.tt.Eq(xt, at)))
				// x > acc
			}
			acc = m.tt.Ite(lt, xt, at)
		}
		return acc
	case "clear":
		switch x := args[0].(type) {
		case *Map:
			if x != nil {
				x.Entries = nil
			}
		case Slice:
			m.inconclusive("clear of a slice unsupported")
		}
		return nil
	case "panic":
		panic(targetPanic{args[0]})
	case "recover":
		return m.doRecover(caller)
	case "ssa:wrapnilchk":
		recv := args[0]
		if p, ok := recv.(Ptr); ok && p == nil {
			m.runtimePanic("value method called using nil pointer")
		}
		return recv
	}
	panic("unknown built-in: " + fn.Name())
}

// ---- range iteration ----

type iter struct {
	kind string
	s    Str
	i    int
	mp   *Map
	keys []*mapEntry
}

func (m *Machine) rangeIter(x Value, t types.Type) *iter {
	switch x := x.(type) {
	case *Map:
		it := &iter{kind: "map", mp: x}
		if x != nil {
			it.keys = append(it.keys, x.Entries...)
			if m.mapOrderAll && len(it.keys) > 1 && len(it.keys) <= 3 {
				perm := m.choose("maporder", fact(len(it.keys)))
				it.keys = permute(it.keys, perm)
			}
		}
		return it
	case Str:
		return &iter{kind: "str", s: x}
	}
	panic(fmt.Sprintf("cannot range over %T", x))
}

func fact(n int) int {
	r := 1
	for i := 2; i <= n; i++ {
		r *= i
	}
	return r
}

func permute(es []*mapEntry, k int) []*mapEntry {
	src := append([]*mapEntry(nil), es...)
	var out []*mapEntry
	for n := len(src); n > 0; n-- {
		i := k % n
		k /= n
		out = append(out, src[i])
		src = append(src[:i], src[i+1:]...)
	}
	return out
}

func (it *iter) next(m *Machine) Tuple {
	switch it.kind {
	case "map":
		for it.i < len(it.keys) {
			e := it.keys[it.i]
			it.i++
			// skip entries deleted during iteration
			live := false
			for _, c := range it.mp.Entries {
				if c == e {
					live = true
					break
				}
			}
			if live {
				return Tuple{m.tt.True, copyVal(e.K), copyVal(e.V)}
			}
		}
		return Tuple{m.tt.False, nil, nil}
	case "str":
		if it.i >= len(it.s) {
			return Tuple{m.tt.False, nil, nil}
		}
		b := it.s[it.i]
		// ASCII only
		if !b.IsConst() {
			if !m.branch(m.tt.BvCmp(OBvUlt, b, m.tt.Const(8, 0x80))) {
				m.inconclusive("range over string with symbolic non-ASCII byte")
			}
		} else if b.C >= 0x80 {
			m.inconclusive("range over non-ASCII string")
		}
		idx := it.i
		it.i++
		return Tuple{m.tt.True, m.tt.Const(64, uint64(idx)), m.tt.Resize(b, 32, false)}
	}
	panic("iter kind")
}
