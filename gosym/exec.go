package main

// The SSA interpreter: frames, instructions, calls, defer/recover/panic.

import (
	"fmt"
	"go/token"
	"go/types"
	"os"
	"runtime"
	"slices"
	"strings"

	"golang.org/x/tools/go/ssa"
)

// ---- control-flow signals (host panics) ----

// targetPanic is a Go panic raised by the program under test.
type targetPanic struct{ v Value }

// pathStop ends the current path. kind: "assume" (silent), "inconclusive", "abort".
type pathStop struct {
	kind string
	why  string
}

// threadExit is raised to unwind a thread when the path is being torn down.
type threadExit struct{}

type deferred struct {
	fn    Value
	args  []Value
	instr *ssa.Defer
	tail  *deferred
}

type frame struct {
	m                *Machine
	caller           *frame
	fn               *ssa.Function
	block, prevBlock *ssa.BasicBlock
	env              map[ssa.Value]Value
	locals           []Value
	defers           *deferred
	result           Value
	panicking        bool
	panic            interface{}
	visits           map[int]int
	phisDone         bool
	thread           *Thread
}

func (fr *frame) get(key ssa.Value) Value {
	switch key := key.(type) {
	case nil:
		return nil
	case *ssa.Function:
		return key
	case *ssa.Builtin:
		return key
	case *ssa.Const:
		return fr.m.constValue(key)
	case *ssa.Global:
		return fr.m.globalAddr(key)
	}
	if r, ok := fr.env[key]; ok {
		return r
	}
	panic(fmt.Sprintf("get: no value for %T: %v in %s", key, key.Name(), fr.fn))
}

func (m *Machine) constValue(c *ssa.Const) Value {
	if c.Value == nil {
		return m.zero(c.Type())
	}
	t := under(c.Type())
	if b, ok := t.(*types.Basic); ok {
		w, signed, kind := basicInfo(b)
		switch kind {
		case "bool":
			return m.tt.Bool(c.Value.String() == "true")
		case "int":
			if signed {
				return m.tt.Const(w, uint64(c.Int64()))
			}
			return m.tt.Const(w, c.Uint64())
		case "float":
			return m.tt.FPConst(c.Float64())
		case "string":
			if c.Value.Kind().String() == "String" {
				return m.strOf(constantStringVal(c))
			}
		}
	}
	panic(fmt.Sprintf("constValue: unexpected constant %v of type %v", c, c.Type()))
}

func (m *Machine) globalAddr(g *ssa.Global) Ptr {
	if p, ok := m.globals[g]; ok {
		return p
	}
	cell := new(Value)
	*cell = m.zero(deref(g.Type()))
	m.globals[g] = cell
	m.lazyInitGlobal(g, cell)
	return cell
}

// runtimePanic raises a Go run-time panic in the target program.
func (m *Machine) runtimePanic(msg string) {
	panic(targetPanic{Iface{T: m.prog.runtimeErrT, V: m.strOf("runtime error: " + msg)}})
}

func (m *Machine) inconclusive(format string, args ...interface{}) {
	panic(pathStop{kind: "inconclusive", why: fmt.Sprintf(format, args...)})
}

// ---- defers ----

func isControl(p interface{}) bool {
	switch p.(type) {
	case pathStop, threadExit, hostError:
		return true
	}
	return false
}

func (fr *frame) runDefer(d *deferred) {
	var ok bool
	defer func() {
		if !ok {
			p := recover()
			if isControl(p) || isHostError(p) {
				panic(p)
			}
			fr.panicking = true
			fr.panic = p
		}
	}()
	fr.m.call(fr, d.instr.Pos(), d.fn, d.args)
	ok = true
}

func isHostError(p interface{}) bool {
	if p == nil {
		return false
	}
	if _, ok := p.(targetPanic); ok {
		return false
	}
	return !isControl(p)
}

func (fr *frame) runDefers() {
	for d := fr.defers; d != nil; d = d.tail {
		fr.runDefer(d)
	}
	fr.defers = nil
	if fr.panicking {
		panic(fr.panic)
	}
}

// ---- instruction dispatch ----

type continuation int

const (
	kNext continuation = iota
	kReturn
	kJump
)

func (m *Machine) fieldIsShared(fa *ssa.FieldAddr) bool {
	if len(m.sharedFields) == 0 {
		return false
	}
	st, ok := under(deref(fa.X.Type())).(*types.Struct)
	if !ok {
		return false
	}
	return m.sharedFields[st.Field(fa.Field).Name()]
}

func (m *Machine) visitInstr(fr *frame, instr ssa.Instruction) continuation {
	m.steps++
	if m.steps > m.cfg.MaxSteps {
		m.inconclusive("step bound %d exceeded in %s", m.cfg.MaxSteps, fr.fn)
	}
	switch instr := instr.(type) {
	case *ssa.DebugRef:

	case *ssa.UnOp:
		if instr.Op == token.MUL {
			if fa, ok := instr.X.(*ssa.FieldAddr); ok && m.fieldIsShared(fa) {
				m.yield("load." + fa.X.Type().String())
			}
		}
		fr.env[instr] = m.unop(fr, instr, fr.get(instr.X))

	case *ssa.BinOp:
		fr.env[instr] = m.binop(instr.Op, instr.X.Type(), fr.get(instr.X), fr.get(instr.Y))

	case *ssa.Call:
		fn, args := m.prepareCall(fr, &instr.Call)
		fr.env[instr] = m.call(fr, instr.Pos(), fn, args)

	case *ssa.ChangeInterface:
		fr.env[instr] = fr.get(instr.X)

	case *ssa.ChangeType:
		fr.env[instr] = fr.get(instr.X)

	case *ssa.Convert:
		fr.env[instr] = m.conv(instr.Type(), instr.X.Type(), fr.get(instr.X))

	case *ssa.MakeInterface:
		fr.env[instr] = Iface{T: instr.X.Type(), V: fr.get(instr.X)}

	case *ssa.Extract:
		fr.env[instr] = fr.get(instr.Tuple).(Tuple)[instr.Index]

	case *ssa.Slice:
		fr.env[instr] = m.sliceOp(instr, fr.get(instr.X), fr.get(instr.Low), fr.get(instr.High), fr.get(instr.Max))

	case *ssa.Return:
		switch len(instr.Results) {
		case 0:
		case 1:
			fr.result = fr.get(instr.Results[0])
		default:
			res := make(Tuple, 0, len(instr.Results))
			for _, r := range instr.Results {
				res = append(res, fr.get(r))
			}
			fr.result = res
		}
		fr.block = nil
		return kReturn

	case *ssa.RunDefers:
		fr.runDefers()

	case *ssa.Panic:
		panic(targetPanic{fr.get(instr.X)})

	case *ssa.Send:
		m.chanSend(fr.get(instr.Chan).(*Chan), fr.get(instr.X))

	case *ssa.Store:
		if fa, ok := instr.Addr.(*ssa.FieldAddr); ok && m.fieldIsShared(fa) {
			m.yield("store")
		}
		m.store(fr.get(instr.Addr).(Ptr), fr.get(instr.Val))

	case *ssa.If:
		succ := 1
		cond := fr.get(instr.Cond).(*Term)
		if !cond.IsConst() && m.spec == 0 && m.replayModel == nil && m.tryIfConvert(fr, instr, cond) {
			return kJump
		}
		if m.branch(cond) {
			succ = 0
		}
		fr.prevBlock, fr.block = fr.block, fr.block.Succs[succ]
		return kJump

	case *ssa.Jump:
		fr.prevBlock, fr.block = fr.block, fr.block.Succs[0]
		return kJump

	case *ssa.Defer:
		fn, args := m.prepareCall(fr, &instr.Call)
		fr.defers = &deferred{fn: fn, args: args, instr: instr, tail: fr.defers}

	case *ssa.Go:
		fn, args := m.prepareCall(fr, &instr.Call)
		m.spawn(fn, args, instr.Pos(), false)

	case *ssa.MakeChan:
		fr.env[instr] = m.newChan(int(m.concreteInt(fr.get(instr.Size), "chan size")))

	case *ssa.Alloc:
		var addr Ptr
		if instr.Heap {
			addr = new(Value)
			fr.env[instr] = addr
		} else {
			addr = fr.env[instr].(Ptr)
		}
		*addr = m.zero(deref(instr.Type()))

	case *ssa.MakeSlice:
		n := int(m.concreteInt(fr.get(instr.Len), "make len"))
		c := int(m.concreteInt(fr.get(instr.Cap), "make cap"))
		if n < 0 || c < n {
			m.runtimePanic("makeslice: len out of range")
		}
		if c > m.cfg.MaxAlloc {
			m.inconclusive("make: cap %d exceeds allocation bound", c)
		}
		s := make(Slice, c)
		tElt := under(instr.Type()).(*types.Slice).Elem()
		for i := range s {
			s[i] = m.zero(tElt)
		}
		fr.env[instr] = s[:n]

	case *ssa.MakeMap:
		fr.env[instr] = &Map{KeyT: under(instr.Type()).(*types.Map).Key()}

	case *ssa.Range:
		fr.env[instr] = m.rangeIter(fr.get(instr.X), instr.X.Type())

	case *ssa.Next:
		fr.env[instr] = fr.get(instr.Iter).(*iter).next(m)

	case *ssa.FieldAddr:
		p := fr.get(instr.X).(Ptr)
		if p == nil {
			m.runtimePanic("invalid memory address or nil pointer dereference")
		}
		st, ok := (*p).(Struct)
		if !ok {
			m.inconclusive("FieldAddr on engine-owned object %s (%T) in %s", valString(*p), *p, fr.fn)
		}
		fr.env[instr] = &st[instr.Field]

	case *ssa.Field:
		st, ok := fr.get(instr.X).(Struct)
		if !ok {
			m.inconclusive("Field on engine-owned object in %s", fr.fn)
		}
		fr.env[instr] = copyVal(st[instr.Field])

	case *ssa.IndexAddr:
		x := fr.get(instr.X)
		idx := fr.get(instr.Index).(*Term)
		switch x := x.(type) {
		case Slice:
			i := m.indexCheck(idx, instr.Index.Type(), len(x))
			fr.env[instr] = &x[i]
		case Ptr:
			if x == nil {
				m.runtimePanic("invalid memory address or nil pointer dereference")
			}
			a := (*x).(Array)
			i := m.indexCheck(idx, instr.Index.Type(), len(a))
			fr.env[instr] = &a[i]
		case *SymSlice:
			m.inconclusive("element access on symbolic-length slice")
		default:
			panic(fmt.Sprintf("IndexAddr: unexpected %T", x))
		}

	case *ssa.Index:
		x := fr.get(instr.X)
		idx := fr.get(instr.Index).(*Term)
		switch x := x.(type) {
		case Array:
			i := m.indexCheck(idx, instr.Index.Type(), len(x))
			fr.env[instr] = copyVal(x[i])
		case Str:
			i := m.indexCheck(idx, instr.Index.Type(), len(x))
			fr.env[instr] = x[i]
		default:
			panic(fmt.Sprintf("Index: unexpected %T", x))
		}

	case *ssa.Lookup:
		fr.env[instr] = m.lookup(instr, fr.get(instr.X), fr.get(instr.Index))

	case *ssa.MapUpdate:
		m.mapSet(fr.get(instr.Map).(*Map), fr.get(instr.Key), fr.get(instr.Value))

	case *ssa.TypeAssert:
		fr.env[instr] = m.typeAssert(instr, fr.get(instr.X).(Iface))

	case *ssa.MakeClosure:
		bindings := make([]Value, 0, len(instr.Bindings))
		for _, b := range instr.Bindings {
			bindings = append(bindings, fr.get(b))
		}
		fr.env[instr] = &Closure{instr.Fn.(*ssa.Function), bindings}

	case *ssa.Select:
		fr.env[instr] = m.selectOp(fr, instr)

	case *ssa.SliceToArrayPointer:
		m.inconclusive("SliceToArrayPointer unsupported")

	default:
		panic(fmt.Sprintf("unexpected instruction: %T", instr))
	}
	return kNext
}

// concreteInt returns the concrete value of an integer term, or ends the path
// inconclusive when it is symbolic.
func (m *Machine) concreteInt(v Value, what string) int64 {
	t := v.(*Term)
	if !t.IsConst() {
		m.inconclusive("symbolic %s: %s", what, t)
	}
	return t.SVal()
}

// indexCheck performs Go's bounds check for idx into a sequence of length n
// and returns a concrete index, forking over feasible values when symbolic.
func (m *Machine) indexCheck(idx *Term, it types.Type, n int) int {
	_, signed, _ := basicInfo(it)
	if idx.IsConst() {
		var i int64
		if signed {
			i = idx.SVal()
		} else {
			if idx.C > uint64(1<<62) {
				i = -1
			} else {
				i = int64(idx.C)
			}
		}
		if i < 0 || i >= int64(n) {
			m.runtimePanic(fmt.Sprintf("index out of range [%d] with length %d", i, n))
		}
		return int(i)
	}
	w := int(idx.S.W)
	// in range?
	inRange := m.tt.BvCmp(OBvUlt, idx, m.tt.Const(w, uint64(n)))
	if n == 0 || !m.branch(inRange) {
		m.runtimePanic(fmt.Sprintf("index out of range [sym] with length %d", n))
	}
	for i := 0; i < n-1; i++ {
		if m.branch(m.tt.Eq(idx, m.tt.Const(w, uint64(i)))) {
			return i
		}
	}
	// PC now implies idx == n-1
	m.addPC(m.tt.Eq(idx, m.tt.Const(w, uint64(n-1))))
	return n - 1
}

func (m *Machine) prepareCall(fr *frame, call *ssa.CallCommon) (fn Value, args []Value) {
	v := fr.get(call.Value)
	if call.Method == nil {
		fn = v
	} else {
		recv := v.(Iface)
		if nm := m.invokeIntercept(call, recv); nm != nil {
			fn = nm
		} else {
			if recv.T == nil {
				m.runtimePanic("invalid memory address or nil pointer dereference (method " + call.Method.Name() + " on nil interface)")
			}
			if op, ok := recv.V.(*Opaque); ok {
				nf := m.opaqueMethod(op, call.Method.Name())
				if nf == nil {
					m.inconclusive("no native method %s on %s", call.Method.Name(), op.Tag)
				}
				fn = nf
			} else if f := m.prog.ssa.LookupMethod(recv.T, call.Method.Pkg(), call.Method.Name()); f == nil {
				panic(fmt.Sprintf("method set for dynamic type %v does not contain %s", recv.T, call.Method))
			} else {
				fn = f
			}
		}
		args = append(args, recv.V)
	}
	for _, arg := range call.Args {
		args = append(args, fr.get(arg))
	}
	return
}

func (m *Machine) call(caller *frame, pos token.Pos, fn Value, args []Value) Value {
	switch fn := fn.(type) {
	case *ssa.Function:
		if fn == nil {
			m.runtimePanic("invalid memory address or nil pointer dereference (call of nil func)")
		}
		return m.callSSA(caller, pos, fn, args, nil)
	case *Closure:
		return m.callSSA(caller, pos, fn.Fn, args, fn.Env)
	case *ssa.Builtin:
		return m.callBuiltin(caller, pos, fn, args)
	case *Native:
		if fn == nil {
			m.runtimePanic("call of nil func")
		}
		return fn.Fn(m, args)
	}
	panic(fmt.Sprintf("cannot call %T", fn))
}

func (m *Machine) callSSA(caller *frame, pos token.Pos, fn *ssa.Function, args []Value, env []Value) Value {
	m.depth++
	defer func() { m.depth-- }()
	if m.depth > m.cfg.MaxDepth {
		m.inconclusive("call depth bound exceeded at %s", fn)
	}
	if h := m.intrinsic(fn); h != nil {
		return h(m, caller, fn, args)
	}
	if fn.Blocks == nil {
		// built lazily for dependency packages
		if fn.Pkg != nil {
			m.prog.buildPkg(fn.Pkg)
		} else if o := fn.Origin(); o != nil && o.Pkg != nil {
			m.prog.buildPkg(o.Pkg)
		}
		if fn.Blocks == nil {
			m.inconclusive("external function without model: %s", fn)
		}
	}
	if fn.TypeParams().Len() > 0 && len(fn.TypeArgs()) == 0 {
		m.inconclusive("uninstantiated generic %s", fn)
	}
	m.noteFunc(fn)
	fr := &frame{m: m, caller: caller, fn: fn, thread: m.cur}
	fr.env = make(map[ssa.Value]Value, 16)
	fr.block = fn.Blocks[0]
	fr.locals = make([]Value, len(fn.Locals))
	for i, l := range fn.Locals {
		fr.locals[i] = m.zero(deref(l.Type()))
		fr.env[l] = &fr.locals[i]
	}
	for i, p := range fn.Params {
		fr.env[p] = args[i]
	}
	for i, fv := range fn.FreeVars {
		fr.env[fv] = env[i]
	}
	for fr.block != nil {
		m.runFrame(fr)
	}
	return fr.result
}

func (m *Machine) runFrame(fr *frame) {
	defer func() {
		if fr.block == nil {
			return // normal return
		}
		p := recover()
		switch p.(type) {
		case pathStop, threadExit, hostError:
			panic(p)
		case targetPanic:
		default:
			// host error inside the engine: report with location, never a verdict
			buf := make([]byte, 1<<14)
			n := runtime.Stack(buf, false)
			panic(hostError{fmt.Sprintf("%v in %s block %d\n%s", p, fr.fn, fr.block.Index, buf[:n])})
		}
		fr.panicking = true
		fr.panic = p
		fr.runDefers()
		fr.block = fr.fn.Recover
		if fr.block == nil {
			// recovered, no named results: return zero values
			fr.result = m.zeroResults(fr.fn)
		}
	}()
	for {
		nonPhis := m.executePhis(fr)
		for _, instr := range nonPhis {
			switch m.visitInstr(fr, instr) {
			case kReturn:
				return
			case kJump:
				if fr.block.Index <= fr.prevBlock.Index {
					if fr.visits == nil {
						fr.visits = map[int]int{}
					}
					fr.visits[fr.block.Index]++
					if fr.visits[fr.block.Index] > m.unwind {
						m.inconclusive("unwinding bound %d exceeded in %s", m.unwind, fr.fn)
					}
				}
			}
		}
	}
}

type hostError struct{ msg string }

func (m *Machine) zeroResults(fn *ssa.Function) Value {
	res := fn.Signature.Results()
	switch res.Len() {
	case 0:
		return nil
	case 1:
		return m.zero(res.At(0).Type())
	}
	t := make(Tuple, res.Len())
	for i := range t {
		t[i] = m.zero(res.At(i).Type())
	}
	return t
}

func (m *Machine) executePhis(fr *frame) []ssa.Instruction {
	firstNonPhi := -1
	for i, instr := range fr.block.Instrs {
		if _, ok := instr.(*ssa.Phi); !ok {
			firstNonPhi = i
			break
		}
	}
	nonPhis := fr.block.Instrs[firstNonPhi:]
	if fr.phisDone {
		fr.phisDone = false
		return nonPhis
	}
	if firstNonPhi > 0 {
		phis := fr.block.Instrs[:firstNonPhi]
		predIndex := slices.Index(fr.block.Preds, fr.prevBlock)
		tmp := make([]Value, 0, len(phis))
		for _, phi := range phis {
			tmp = append(tmp, fr.get(phi.(*ssa.Phi).Edges[predIndex]))
		}
		for i, phi := range phis {
			fr.env[phi.(*ssa.Phi)] = tmp[i]
		}
	}
	return nonPhis
}

func (m *Machine) doRecover(caller *frame) Value {
	if caller != nil && !caller.panicking && caller.caller != nil && caller.caller.panicking {
		caller.caller.panicking = false
		p := caller.caller.panic
		caller.caller.panic = nil
		switch p := p.(type) {
		case targetPanic:
			if _, ok := p.v.(Iface); ok {
				return p.v
			}
			return Iface{T: m.prog.runtimeErrT, V: m.strOf("panic")}
		default:
			panic(p)
		}
	}
	return Iface{}
}

func (m *Machine) noteFunc(fn *ssa.Function) {
	if m.funcsSeen == nil {
		return
	}
	if _, ok := m.funcsSeen[fn]; ok {
		return
	}
	m.funcsSeen[fn] = true
}

func posString(fset *token.FileSet, pos token.Pos) string {
	if pos == token.NoPos {
		return "?"
	}
	p := fset.Position(pos)
	return fmt.Sprintf("%s:%d", strings.TrimPrefix(p.Filename, "/repo/"), p.Line)
}

var _ = os.Stderr
