package main

// Loading /repo (current working tree) with harness overlays and building SSA.

import (
	"fmt"
	"go/types"
	"os"
	"path/filepath"
	"sort"
	"strings"
	"sync"

	"golang.org/x/tools/go/packages"
	"golang.org/x/tools/go/ssa"
	"golang.org/x/tools/go/ssa/ssautil"
)

type Program struct {
	ssa         *ssa.Program
	pkgs        []*ssa.Package
	harness     map[string]*ssa.Function // by name, e.g. "C18_order"
	stubs       map[string][]*ssa.Function // mangled callee name -> harness stubs (one per harness package)
	runtimeErrT types.Type
	buildMu     sync.Mutex
	built       map[*ssa.Package]bool
	modulePath  string
	overlayMap  map[string]string // virtual path -> real harness path
	pdoms       map[*ssa.Function]*pdomInfo
}

const modulePath = "github.com/Trendyol/go-dcp"

// LoadProgram loads the packages in pkgPatterns (relative to repoDir) with
// every file under harnessDir/<pkgdir>/ overlaid into repoDir/<pkgdir>/.
func LoadProgram(repoDir, harnessDir string, pkgDirs []string) (*Program, error) {
	overlay := map[string][]byte{}
	overlayMap := map[string]string{}
	var patterns []string
	for _, d := range pkgDirs {
		patterns = append(patterns, "./"+d)
		files, _ := filepath.Glob(filepath.Join(harnessDir, harnessSubdir(d), "*.go"))
		for _, f := range files {
			b, err := os.ReadFile(f)
			if err != nil {
				return nil, err
			}
			// the engine build excludes native-only support files
			if strings.Contains(string(b), "//go:build !gosym") {
				continue
			}
			virt := filepath.Join(repoDir, d, filepath.Base(f))
			overlay[virt] = b
			overlayMap[virt] = f
		}
		// the shared harness runtime, instantiated for this package
		if len(files) > 0 {
			tmpl, err := os.ReadFile(filepath.Join(harnessDir, "_rt", "rt.go.tmpl"))
			if err != nil {
				return nil, err
			}
			name, err := packageNameOf(filepath.Join(repoDir, d))
			if err != nil {
				return nil, err
			}
			virt := filepath.Join(repoDir, d, "zz_verif_rt_test.go")
			overlay[virt] = []byte(strings.Replace(string(tmpl), "package PKGNAME", "package "+name, 1))
		}
	}
	cfg := &packages.Config{
		Mode:       packages.LoadAllSyntax,
		Dir:        repoDir,
		Tests:      true,
		Overlay:    overlay,
		BuildFlags: []string{"-tags=gosym"},
		Env:        append(os.Environ(), "GOFLAGS=-mod=mod", "GOPROXY=off", "GOSUMDB=off", "GOTOOLCHAIN=local"),
	}
	initial, err := packages.Load(cfg, patterns...)
	if err != nil {
		return nil, err
	}
	nerr := 0
	packages.Visit(initial, nil, func(p *packages.Package) {
		for _, e := range p.Errors {
			if nerr < 20 {
				fmt.Fprintln(os.Stderr, "load error:", e)
			}
			nerr++
		}
	})
	if nerr > 0 {
		return nil, fmt.Errorf("%d package load errors", nerr)
	}
	prog, pkgs := ssautil.AllPackages(initial, ssa.InstantiateGenerics)
	p := &Program{ssa: prog, harness: map[string]*ssa.Function{}, stubs: map[string][]*ssa.Function{},
		built: map[*ssa.Package]bool{}, modulePath: modulePath, overlayMap: overlayMap}
	for i, sp := range pkgs {
		if sp == nil {
			continue
		}
		ip := initial[i]
		// the in-package test variant carries ID "path [path.test]"
		if !strings.Contains(ip.ID, "[") && hasTestVariant(initial, ip.PkgPath) {
			continue
		}
		if strings.HasSuffix(ip.ID, ".test") {
			continue
		}
		p.buildPkg(sp)
		p.pkgs = append(p.pkgs, sp)
		for name, mem := range sp.Members {
			fn, ok := mem.(*ssa.Function)
			if !ok {
				continue
			}
			pos := prog.Fset.Position(fn.Pos())
			if !isHarnessFile(pos.Filename) {
				continue
			}
			if strings.HasPrefix(name, "stub__") {
				k := strings.TrimPrefix(name, "stub__")
				p.stubs[k] = append(p.stubs[k], fn)
			} else if strings.HasPrefix(name, "H_") {
				p.harness[strings.TrimPrefix(name, "H_")] = fn
			}
		}
	}
	// build all module packages eagerly (they are small)
	for _, sp := range prog.AllPackages() {
		if strings.HasPrefix(sp.Pkg.Path(), modulePath) {
			p.buildPkg(sp)
		}
	}
	if rt := prog.ImportedPackage("runtime"); rt != nil {
		if t := rt.Type("errorString"); t != nil {
			p.runtimeErrT = t.Object().Type()
		}
	}
	if p.runtimeErrT == nil {
		p.runtimeErrT = types.Universe.Lookup("error").Type()
	}
	return p, nil
}

func hasTestVariant(initial []*packages.Package, path string) bool {
	for _, ip := range initial {
		if ip.PkgPath == path && strings.Contains(ip.ID, "[") {
			return true
		}
	}
	return false
}

func (p *Program) buildPkg(sp *ssa.Package) {
	p.buildMu.Lock()
	defer p.buildMu.Unlock()
	if p.built[sp] {
		return
	}
	p.built[sp] = true
	sp.Build()
}

func (p *Program) harnessNames() []string {
	var ns []string
	for n := range p.harness {
		ns = append(ns, n)
	}
	sort.Strings(ns)
	return ns
}

// originName returns the name used to key intrinsics: the generic origin's
// name for instantiations, else the function's own name.
func originName(fn *ssa.Function) string {
	if o := fn.Origin(); o != nil {
		return o.String()
	}
	return fn.String()
}

// mangledName maps a callee to the harness stub name that may replace it:
// "<pkgname>_<Recv>_<Method>" or "<pkgname>_<Func>".
func mangledName(fn *ssa.Function) string {
	f := fn
	if o := fn.Origin(); o != nil {
		f = o
	}
	if f.Pkg == nil && f.Signature.Recv() == nil {
		return ""
	}
	var pkgName string
	if f.Pkg != nil {
		pkgName = f.Pkg.Pkg.Name()
	}
	if recv := f.Signature.Recv(); recv != nil {
		t := recv.Type()
		if pt, ok := t.(*types.Pointer); ok {
			t = pt.Elem()
		}
		if nt, ok := types.Unalias(t).(*types.Named); ok {
			if nt.Obj().Pkg() != nil {
				pkgName = nt.Obj().Pkg().Name()
			}
			return pkgName + "_" + nt.Obj().Name() + "_" + f.Name()
		}
		return ""
	}
	return pkgName + "_" + f.Name()
}

// packageNameOf reads the package clause of the first non-test Go file in dir.
func packageNameOf(dir string) (string, error) {
	files, _ := filepath.Glob(filepath.Join(dir, "*.go"))
	for _, f := range files {
		if strings.HasSuffix(f, "_test.go") {
			continue
		}
		b, err := os.ReadFile(f)
		if err != nil {
			continue
		}
		for _, line := range strings.Split(string(b), "\n") {
			line = strings.TrimSpace(line)
			if strings.HasPrefix(line, "package ") {
				return strings.Fields(line)[1], nil
			}
		}
	}
	return "", fmt.Errorf("no package clause found in %s", dir)
}

// stubFor returns the harness stub replacing the callee mangled as mn,
// defined in the running harness's own package (stubs never leak across packages).
func (p *Program) stubFor(mn string, harnessPkg *ssa.Package) *ssa.Function {
	l := p.stubs[mn]
	for _, f := range l {
		if f.Pkg == harnessPkg {
			return f
		}
	}
	return nil
}

// harnessSubdir maps a package directory to its directory under harness/ (the module root is "root").
func harnessSubdir(d string) string {
	if d == "." || d == "" {
		return "root"
	}
	return d
}
