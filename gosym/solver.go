package main

// One long-lived `z3 -in` process per worker; push/pop per path and per query.

import (
	"bufio"
	"fmt"
	"io"
	"os"
	"os/exec"
	"strconv"
	"strings"
	"time"
)

type SatResult int

const (
	Unsat SatResult = iota
	Sat
	Unknown
)

func (r SatResult) String() string { return [...]string{"unsat", "sat", "unknown"}[r] }

type SolverStats struct {
	Queries  int
	Sat      int
	Unsat    int
	Unknown  int
	Time     time.Duration
	Restarts int
}

type Solver struct {
	bin     string
	cmd     *exec.Cmd
	in      io.WriteCloser
	out     *bufio.Reader
	defined map[int]bool // term ids defined in the current path scope
	inPath  bool
	Stats   SolverStats
	log     io.Writer // optional SMT transcript
	rlimit  int
	tmo     int // ms
	buf     strings.Builder
	// everything defined and asserted in the current path scope, for the one-shot fallback solver
	pathLog   []string
	weak      bool
	Fallbacks FallbackStats
}

// FallbackStats counts the queries the primary solver could not decide and what the
// second solver (cvc5 with the integer encoding of bit-vectors) answered for them.
type FallbackStats struct {
	Asked, Sat, Unsat, Unknown int
	Time                       time.Duration
}

func NewSolver(bin string, rlimit, timeoutMs int) (*Solver, error) {
	s := &Solver{bin: bin, rlimit: rlimit, tmo: timeoutMs}
	if p := os.Getenv("GOSYM_SMTLOG"); p != "" {
		f, err := os.OpenFile(p, os.O_CREATE|os.O_WRONLY|os.O_APPEND, 0o644)
		if err == nil {
			s.log = f
		}
	}
	if err := s.start(); err != nil {
		return nil, err
	}
	return s, nil
}

func (s *Solver) start() error {
	args := []string{"-in"}
	if strings.Contains(s.bin, "cvc5") {
		args = []string{"--incremental", "--lang=smt2", "--produce-models"}
	}
	s.cmd = exec.Command(s.bin, args...)
	in, err := s.cmd.StdinPipe()
	if err != nil {
		return err
	}
	out, err := s.cmd.StdoutPipe()
	if err != nil {
		return err
	}
	s.cmd.Stderr = os.Stderr
	if err := s.cmd.Start(); err != nil {
		return err
	}
	s.in = in
	s.out = bufio.NewReaderSize(out, 1<<16)
	s.defined = map[int]bool{}
	s.inPath = false
	s.weak = false
	if !strings.Contains(s.bin, "cvc5") {
		s.send("(set-option :produce-models true)\n")
		if s.tmo > 0 {
			s.send(fmt.Sprintf("(set-option :timeout %d)\n", s.tmo))
		}
		if s.rlimit > 0 {
			s.send(fmt.Sprintf("(set-option :rlimit %d)\n", s.rlimit))
		}
	} else {
		s.send("(set-logic ALL)\n")
	}
	return nil
}

func (s *Solver) Close() {
	if s.cmd != nil {
		s.in.Close()
		s.cmd.Process.Kill()
		s.cmd.Wait()
		s.cmd = nil
	}
}

func (s *Solver) send(str string) {
	if s.log != nil {
		io.WriteString(s.log, str)
	}
	io.WriteString(s.in, str)
}

// weaken: the primary solver has met a query it cannot decide within its time limit; the
// queries that follow in this worker are likely of the same kind, so it gets 5 s each
// before the second solver is asked.
func (s *Solver) weaken() {
	if !s.weak && s.cmd != nil && !strings.Contains(s.bin, "cvc5") {
		s.weak = true
		s.send("(set-option :timeout 5000)\n")
	}
}

// sendScoped sends text that belongs to the current path scope (definitions, assertions) and remembers it.
func (s *Solver) sendScoped(str string) {
	if str == "" {
		return
	}
	s.pathLog = append(s.pathLog, str)
	s.send(str)
}

// fallback decides pathLog ∧ extra with a second solver in one shot: cvc5 with
// --solve-bv-as-int=sum, which keeps the mod-2^k semantics and decides
// multiply/divide-by-constant kernels that bit-blasting does not finish.
// vars != nil also asks for their values. Disabled with GOSYM_FALLBACK=off.
func (s *Solver) fallback(extra *Term, vars []*Term) (SatResult, string) {
	bin := os.Getenv("GOSYM_FALLBACK")
	if bin == "off" || strings.Contains(s.bin, "cvc5") {
		return Unknown, ""
	}
	if bin == "" {
		bin = "cvc5"
	}
	start := time.Now()
	defer func() { s.Fallbacks.Time += time.Since(start) }()
	s.Fallbacks.Asked++
	f, err := os.CreateTemp("/var/tmp", "gosym-fb-*.smt2")
	if err != nil {
		s.Fallbacks.Unknown++
		return Unknown, ""
	}
	defer os.Remove(f.Name())
	var b strings.Builder
	b.WriteString("(set-logic ALL)\n")
	for _, l := range s.pathLog {
		b.WriteString(l)
	}
	if extra != nil {
		b.WriteString("(assert " + refSMT(extra) + ")\n")
	}
	b.WriteString("(check-sat)\n")
	if len(vars) > 0 {
		b.WriteString("(get-value (")
		for _, v := range vars {
			b.WriteString(" " + refSMT(v))
		}
		b.WriteString("))\n")
	}
	f.WriteString(b.String())
	f.Close()
	tl := 30000
	if s.tmo > 60000 {
		tl = 120000
	}
	args := []string{"--lang=smt2", "--solve-bv-as-int=sum", fmt.Sprintf("--tlimit=%d", tl)}
	if len(vars) > 0 {
		args = append(args, "--produce-models")
	}
	out, _ := exec.Command(bin, append(args, f.Name())...).Output()
	txt := string(out)
	first := strings.TrimSpace(strings.SplitN(txt, "\n", 2)[0])
	switch {
	case first == "sat" && !strings.Contains(txt, "(error"):
		s.Fallbacks.Sat++
		return Sat, txt
	case first == "unsat" && !strings.Contains(txt, "(error"):
		s.Fallbacks.Unsat++
		return Unsat, txt
	}
	s.Fallbacks.Unknown++
	return Unknown, ""
}

// BeginPath opens a fresh scope.
func (s *Solver) BeginPath() {
	if s.inPath {
		s.EndPath()
	}
	s.send("(push 1)\n")
	s.inPath = true
	s.pathLog = s.pathLog[:0]
	for k := range s.defined {
		delete(s.defined, k)
	}
}

func (s *Solver) EndPath() {
	if s.inPath {
		s.send("(pop 1)\n")
		s.inPath = false
	}
}

// define emits define-fun / declare-const for every node reachable from t that
// has not been emitted in this path scope.
func (s *Solver) define(t *Term) {
	if t.Op == OConst || s.defined[t.ID] {
		return
	}
	// iterative post-order
	type item struct {
		t    *Term
		done bool
	}
	stack := []item{{t, false}}
	for len(stack) > 0 {
		it := stack[len(stack)-1]
		stack = stack[:len(stack)-1]
		if it.t.Op == OConst || s.defined[it.t.ID] {
			continue
		}
		if it.t.Op == OVar {
			s.defined[it.t.ID] = true
			fmt.Fprintf(&s.buf, "(declare-const |%s| %s)\n", it.t.Name, it.t.S)
			continue
		}
		if it.done {
			s.defined[it.t.ID] = true
			fmt.Fprintf(&s.buf, "(define-fun n%d () %s %s)\n", it.t.ID, it.t.S, bodySMT(it.t))
			continue
		}
		stack = append(stack, item{it.t, true})
		for _, a := range it.t.Args {
			if a.Op != OConst && !s.defined[a.ID] {
				stack = append(stack, item{a, false})
			}
		}
	}
	s.sendScoped(s.buf.String())
	s.buf.Reset()
}

// Assert adds t to the path scope permanently.
func (s *Solver) Assert(t *Term) {
	s.define(t)
	s.sendScoped("(assert " + refSMT(t) + ")\n")
}

func (s *Solver) readLine() (string, error) {
	line, err := s.out.ReadString('\n')
	return strings.TrimSpace(line), err
}

func (s *Solver) checkSat() SatResult {
	s.send("(check-sat)\n")
	sawErr := false
	for {
		line, err := s.readLine()
		if err != nil {
			// solver died: restart, report unknown
			s.Stats.Restarts++
			s.Close()
			s.start()
			return Unknown
		}
		switch {
		case line == "sat":
			if sawErr {
				return Unknown
			}
			return Sat
		case line == "unsat":
			if sawErr {
				return Unknown
			}
			return Unsat
		case line == "unknown" || strings.HasPrefix(line, "timeout"):
			return Unknown
		case strings.HasPrefix(line, "(error"):
			fmt.Fprintln(os.Stderr, "solver error:", line)
			sawErr = true
		case line == "":
		default:
			// other output (e.g. continuation of an error); treat as error
			if strings.Contains(line, "error") {
				sawErr = true
			}
		}
	}
}

// Check decides PC ∧ extra (extra may be nil) where PC is what has been
// Asserted in this path.
func (s *Solver) Check(extra *Term) SatResult {
	start := time.Now()
	var r SatResult
	if extra == nil {
		r = s.checkSat()
	} else {
		s.define(extra)
		s.send("(push 1)\n(assert " + refSMT(extra) + ")\n")
		r = s.checkSat()
		if s.cmd != nil && r != Unknown || s.Stats.Restarts == 0 {
			s.send("(pop 1)\n")
		}
	}
	if r == Unknown {
		s.weaken()
		if fr, _ := s.fallback(extra, nil); fr != Unknown {
			r = fr
		}
	}
	s.Stats.Queries++
	s.Stats.Time += time.Since(start)
	switch r {
	case Sat:
		s.Stats.Sat++
	case Unsat:
		s.Stats.Unsat++
	default:
		s.Stats.Unknown++
	}
	return r
}

// Model returns values of vars under PC ∧ extra. ok=false if not sat.
func (s *Solver) Model(extra *Term, vars []*Term) (map[string]uint64, SatResult) {
	start := time.Now()
	defer func() { s.Stats.Time += time.Since(start) }()
	for _, v := range vars {
		s.define(v)
	}
	if extra != nil {
		s.define(extra)
		s.send("(push 1)\n(assert " + refSMT(extra) + ")\n")
		defer s.send("(pop 1)\n")
	}
	r := s.checkSat()
	s.Stats.Queries++
	if r == Unknown {
		s.weaken()
		if fr, txt := s.fallback(extra, vars); fr == Sat {
			res := map[string]uint64{}
			if i := strings.Index(txt, "\n"); i >= 0 {
				parseModel(txt[i+1:], vars, res)
			}
			return res, Sat
		} else if fr == Unsat {
			return nil, Unsat
		}
	}
	if r != Sat {
		return nil, r
	}
	res := map[string]uint64{}
	if len(vars) == 0 {
		return res, Sat
	}
	var sb strings.Builder
	sb.WriteString("(get-value (")
	for _, v := range vars {
		sb.WriteString(refSMT(v))
		sb.WriteString(" ")
	}
	sb.WriteString("))\n")
	s.send(sb.String())
	// read a balanced s-expression
	depth := 0
	var text strings.Builder
	started := false
	for {
		line, err := s.out.ReadString('\n')
		if err != nil {
			return nil, Unknown
		}
		text.WriteString(line)
		inBar := false
		for _, ch := range line {
			if ch == '|' {
				inBar = !inBar
			}
			if inBar {
				continue
			}
			if ch == '(' {
				depth++
				started = true
			} else if ch == ')' {
				depth--
			}
		}
		if started && depth <= 0 {
			break
		}
	}
	parseModel(text.String(), vars, res)
	return res, Sat
}

// parseModel extracts "(name value)" pairs for the given vars.
func parseModel(txt string, vars []*Term, res map[string]uint64) {
	toks := tokenize(txt)
	// find each var token followed by its value
	idx := map[string]*Term{}
	for _, v := range vars {
		idx["|"+v.Name+"|"] = v
		idx[v.Name] = v
	}
	for i := 0; i < len(toks); i++ {
		v, ok := idx[toks[i]]
		if !ok || i == 0 || toks[i-1] != "(" {
			continue
		}
		val, n := parseValue(toks[i+1:])
		res[v.Name] = val
		i += n
	}
}

func tokenize(s string) []string {
	var toks []string
	i := 0
	for i < len(s) {
		c := s[i]
		switch {
		case c == '(' || c == ')':
			toks = append(toks, string(c))
			i++
		case c == ' ' || c == '\n' || c == '\t' || c == '\r':
			i++
		case c == '|':
			j := strings.IndexByte(s[i+1:], '|')
			if j < 0 {
				j = len(s) - i - 2
			}
			toks = append(toks, s[i:i+j+2])
			i += j + 2
		default:
			j := i
			for j < len(s) && !strings.ContainsRune("() \n\t\r", rune(s[j])) {
				j++
			}
			toks = append(toks, s[i:j])
			i = j
		}
	}
	return toks
}

func parseValue(toks []string) (uint64, int) {
	if len(toks) == 0 {
		return 0, 0
	}
	t := toks[0]
	switch {
	case t == "true":
		return 1, 1
	case t == "false":
		return 0, 1
	case strings.HasPrefix(t, "#x"):
		v, _ := strconv.ParseUint(t[2:], 16, 64)
		return v, 1
	case strings.HasPrefix(t, "#b"):
		v, _ := strconv.ParseUint(t[2:], 2, 64)
		return v, 1
	case t == "(":
		// (_ bvN W) | (fp s e m) | (_ +zero 11 53) ...
		depth := 0
		n := 0
		for n < len(toks) {
			if toks[n] == "(" {
				depth++
			} else if toks[n] == ")" {
				depth--
				if depth == 0 {
					n++
					break
				}
			}
			n++
		}
		inner := toks[1 : n-1]
		if len(inner) >= 2 && inner[0] == "_" && strings.HasPrefix(inner[1], "bv") {
			v, _ := strconv.ParseUint(inner[1][2:], 10, 64)
			return v, n
		}
		if len(inner) == 4 && inner[0] == "fp" {
			sg, _ := parseValue(inner[1:2])
			ex, _ := parseValue(inner[2:3])
			mn, _ := parseValue(inner[3:4])
			return sg<<63 | ex<<52 | mn, n
		}
		if len(inner) >= 2 && inner[0] == "_" {
			switch inner[1] {
			case "+zero":
				return 0, n
			case "-zero":
				return 1 << 63, n
			case "+oo":
				return 0x7ff << 52, n
			case "-oo":
				return 0xfff << 52, n
			case "NaN":
				return 0x7ff8 << 48, n
			}
		}
		return 0, n
	}
	return 0, 1
}
