package main

// Path exploration by decision replay over a shared work queue.

import (
	"fmt"
	"strings"
	"math/rand"
	"os"
	"sort"
	"sync"
	"time"

	"golang.org/x/tools/go/ssa"
)

type HarnessSpec struct {
	Name     string   `json:"name"`
	Covers   []string `json:"covers"`    // labels that must be covered on some path
	Preempt  int      `json:"preempt"`   // context-switch bound (0 = default)
	Unwind   int      `json:"unwind"`    // loop unwinding bound
	MaxPaths int      `json:"max_paths"` // path budget; exceeding = inconclusive
	MaxSteps int      `json:"max_steps"`
	Twin     bool     `json:"twin"` // expect at least one violation labelled "twin" (vacuity twin)
	Kind     string   `json:"kind"` // "step" (inductive / proof obligations) or "hist"
	Tier     string   `json:"tier"` // "", "quick", "thorough": restricts the harness to a tier
	Note     string   `json:"note"`
	Merge    bool     `json:"merge"`  // enable if-conversion (state merging of pure diamonds)
	Cross    []string `json:"cross"`  // thorough tier: re-decide the harness with these solvers and require the same verdict and path count
	Native   bool     `json:"native"` // counterexamples are also replayed against the compiled code
}

type HarnessResult struct {
	Name          string
	Paths         int
	Outcomes      map[string]int
	Decisions     int
	Violations    []*Violation
	Covers        map[string]bool
	MissingCovers []string
	Inconclusive  []string
	Asserts       int
	Proved        int
	Unknowns      int
	OverApprox    int
	Solver        SolverStats
	Fallback      FallbackStats
	Wall          time.Duration
	Samples       []map[string]interface{}
	Funcs         map[string]bool
	MaxPathSteps  int
	BudgetHit     bool
	KnownHits     int
}

type Explorer struct {
	prog      *Program
	fn        *ssa.Function
	spec      HarnessSpec
	cfg       Config
	workers   int
	solverBin string
	rlimit    int
	tmoMs     int
	seed      int64

	mu     sync.Mutex
	cond   *sync.Cond
	queue  [][]int
	active int
	res    *HarnessResult
	stop   bool

	knownLabels       map[string]bool
	knownKept         map[string]int
	unknownViolations int
	firstViolation    time.Time
}

func (e *Explorer) Run() *HarnessResult {
	start := time.Now()
	e.res = &HarnessResult{Name: e.spec.Name, Outcomes: map[string]int{}, Covers: map[string]bool{}, Funcs: map[string]bool{}}
	e.cond = sync.NewCond(&e.mu)
	e.knownKept = map[string]int{}
	if e.knownLabels == nil {
		e.knownLabels = map[string]bool{}
	}
	e.queue = [][]int{nil}
	rng := rand.New(rand.NewSource(e.seed))
	var wg sync.WaitGroup
	if os.Getenv("GOSYM_PROGRESS") != "" {
		done := make(chan struct{})
		defer close(done)
		go func() {
			for {
				select {
				case <-done:
					return
				case <-time.After(10 * time.Second):
					e.mu.Lock()
					fmt.Fprintf(os.Stderr, "progress %s: paths=%d queue=%d active=%d outcomes=%v\n", e.spec.Name, e.res.Paths, len(e.queue), e.active, e.res.Outcomes)
					e.mu.Unlock()
				}
			}
		}()
	}
	for w := 0; w < e.workers; w++ {
		wg.Add(1)
		go func(w int) {
			defer wg.Done()
			m, err := NewMachine(e.prog, e.cfg, e.solverBin, e.rlimit, e.tmoMs)
			if err != nil {
				fmt.Fprintln(os.Stderr, "solver start:", err)
				e.mu.Lock()
				e.res.Inconclusive = append(e.res.Inconclusive, "cannot start solver: "+err.Error())
				e.mu.Unlock()
				return
			}
			defer m.sol.Close()
			for {
				e.mu.Lock()
				for len(e.queue) == 0 && e.active > 0 && !e.stop {
					e.cond.Wait()
				}
				if e.stop || (len(e.queue) == 0 && e.active == 0) {
					e.mu.Unlock()
					e.cond.Broadcast()
					break
				}
				prefix := e.queue[len(e.queue)-1]
				e.queue = e.queue[:len(e.queue)-1]
				e.active++
				nthPath := e.res.Paths
				e.mu.Unlock()

				m.wantSample = nthPath < 64
				pr := m.RunPath(e.fn, prefix)

				e.mu.Lock()
				e.active--
				e.absorb(m, pr, rng)
				if e.unknownViolations >= 64 && !e.spec.Twin {
					// enough witnesses: a violation is a definitive answer, stop exploring
					e.stop = true
				}
				if e.unknownViolations > 0 && !e.spec.Twin {
					// the verdict is already "violation"; keep looking for further distinct
					// witnesses only for a bounded time (a breaking change can blow the path
					// space up far beyond what the unchanged tree needs)
					if e.firstViolation.IsZero() {
						e.firstViolation = time.Now()
					} else if time.Since(e.firstViolation) > violationLinger(e.spec.Tier) {
						e.stop = true
					}
				}
				if e.spec.MaxPaths > 0 && e.res.Paths >= e.spec.MaxPaths && len(e.queue) > 0 {
					e.res.BudgetHit = true
					e.res.Inconclusive = append(e.res.Inconclusive, fmt.Sprintf("path budget %d exhausted with %d prefixes pending", e.spec.MaxPaths, len(e.queue)))
					e.stop = true
				}
				e.mu.Unlock()
				e.cond.Broadcast()
			}
			e.mu.Lock()
			st := m.sol.Stats
			e.res.Solver.Queries += st.Queries
			e.res.Solver.Sat += st.Sat
			e.res.Solver.Unsat += st.Unsat
			e.res.Solver.Unknown += st.Unknown
			e.res.Solver.Time += st.Time
			e.res.Solver.Restarts += st.Restarts
			fb := m.sol.Fallbacks
			e.res.Fallback.Asked += fb.Asked
			e.res.Fallback.Sat += fb.Sat
			e.res.Fallback.Unsat += fb.Unsat
			e.res.Fallback.Unknown += fb.Unknown
			e.res.Fallback.Time += fb.Time
			for _, f := range m.funcList() {
				e.res.Funcs[f] = true
			}
			e.mu.Unlock()
		}(w)
	}
	wg.Wait()
	for _, c := range e.spec.Covers {
		if !e.res.Covers[c] {
			e.res.MissingCovers = append(e.res.MissingCovers, c)
		}
	}
	e.res.Wall = time.Since(start)
	return e.res
}

func violationLinger(tier string) time.Duration {
	if tier == "thorough" {
		return 120 * time.Second
	}
	return 20 * time.Second
}

func (e *Explorer) absorb(m *Machine, pr *PathResult, rng *rand.Rand) {
	r := e.res
	r.Paths++
	r.Outcomes[pr.Outcome]++
	r.Decisions += len(pr.Decisions)
	r.Asserts += pr.Asserts
	r.Proved += pr.Proved
	r.Unknowns += pr.Unknowns
	if pr.OverApprox {
		r.OverApprox++
	}
	if pr.Steps > r.MaxPathSteps {
		r.MaxPathSteps = pr.Steps
	}
	for c := range pr.Covers {
		r.Covers[c] = true
	}
	alts := pr.Alts
	if e.seed != 0 {
		rng.Shuffle(len(alts), func(i, j int) { alts[i], alts[j] = alts[j], alts[i] })
	}
	e.queue = append(e.queue, alts...)
	switch pr.Outcome {
	case "ok", "assume", "violation", "panic", "deadlock", "panic-allowed", "deadlock-allowed":
	default:
		if len(r.Inconclusive) < 20 {
			why := pr.Why
			if os.Getenv("GOSYM_DEBUG") == "" {
				if i := strings.Index(why, "\ngoroutine "); i >= 0 {
					why = why[:i]
				}
			}
			if len(why) > 700 {
				why = why[:700] + " ..."
			}
			msg := pr.Outcome + ": " + why
			dup := false
			for _, old := range r.Inconclusive {
				if old == msg {
					dup = true
				}
			}
			if !dup {
				r.Inconclusive = append(r.Inconclusive, msg)
			}
		}
	}
	if pr.Unknowns > 0 && len(r.Inconclusive) < 20 {
		r.Inconclusive = append(r.Inconclusive, "solver answered unknown on an assertion")
	}
	for _, v := range pr.Violations {
		if e.knownLabels[v.Label] {
			// listed known finding: keep a few witnesses, do not let it cut the exploration short
			if e.knownKept[v.Label] < 4 {
				e.knownKept[v.Label]++
				r.Violations = append(r.Violations, v)
			}
			r.KnownHits++
			continue
		}
		e.unknownViolations++
		if len(r.Violations) < 200 {
			r.Violations = append(r.Violations, v)
		}
	}
	if pr.Outcome == "ok" && pr.Sample != nil && len(r.Samples) < 5 {
		r.Samples = append(r.Samples, map[string]interface{}{
			"decisions": pr.Decisions, "inputs": sampleStrings(pr.Sample), "trace": pr.Trace,
		})
	}
}

func sampleStrings(mod map[string]uint64) map[string]string {
	out := map[string]string{}
	keys := make([]string, 0, len(mod))
	for k := range mod {
		keys = append(keys, k)
	}
	sort.Strings(keys)
	for i, k := range keys {
		if i >= 40 {
			break
		}
		out[k] = fmt.Sprintf("%d", mod[k])
	}
	return out
}

// replayViolation re-executes the harness concretely with the model's values
// and the recorded free decisions; reports whether the same assertion fails.
func (e *Explorer) replayViolation(v *Violation) (bool, string) {
	m, err := NewMachine(e.prog, e.cfg, e.solverBin, 0, 0)
	if err != nil {
		return false, err.Error()
	}
	defer m.sol.Close()
	model := v.Model
	if model == nil {
		model = map[string]uint64{}
	}
	m.replayModel = model
	m.funcsSeen = nil
	pr := m.RunPath(e.fn, v.Chooses)
	switch v.Kind {
	case "assert":
		for _, rv := range pr.Violations {
			if rv.Label == v.Label {
				return true, ""
			}
		}
		return false, fmt.Sprintf("replay outcome %s (%s), violations: %d", pr.Outcome, pr.Why, len(pr.Violations))
	case "panic":
		return pr.Outcome == "panic", pr.Outcome + " " + pr.Why
	case "deadlock":
		return pr.Outcome == "deadlock", pr.Outcome + " " + pr.Why
	}
	return false, "unknown kind"
}
