package config

// C17 — configuration defaulting is safe, idempotent and unit-exact.

import (
	"time"

	"github.com/Trendyol/go-dcp/logger"
)

func init() {
	vHarnesses["C17_durations"] = H_C17_durations
	vHarnesses["C17_strings"] = H_C17_strings
	vHarnesses["C17_ints"] = H_C17_ints
	vHarnesses["C17_compose"] = H_C17_compose
}

var vEnv = map[string]string{}

func stub__os_Getenv(key string) string { return vEnv[key] }

func vStr(name string) string {
	maxLen := 2
	if tierThorough() {
		maxLen = 3
	}
	return nondetStr(name, concretize(nondetInt(name+".len"), 0, maxLen))
}

func vDur(name string) time.Duration { return time.Duration(nondetI64(name)) }

func vDefDur(in, def time.Duration) time.Duration {
	if in == 0 {
		return def
	}
	return in
}

func vDefInt(in, def int) int {
	if in == 0 {
		return def
	}
	return in
}

func vDefStr(in, def string) string {
	if in == "" {
		return def
	}
	return in
}

// H_C17_durations: every duration option, each an arbitrary 64-bit value.
func H_C17_durations() {
	setMerge(true)
	logger.Log = vDiscardLogger{}
	c := &Dcp{}
	in := [8]time.Duration{vDur("rmInterval"), vDur("rmWatch"), vDur("cpInterval"), vDur("cpTimeout"), vDur("hcInterval"), vDur("hcTimeout"), vDur("dcpConnTimeout"), vDur("connTimeout")}
	rd := vDur("rebalanceDelay")
	c.RollbackMitigation.Interval, c.RollbackMitigation.ConfigWatchInterval = in[0], in[1]
	c.Checkpoint.Interval, c.Checkpoint.Timeout = in[2], in[3]
	c.HealthCheck.Interval, c.HealthCheck.Timeout = in[4], in[5]
	c.Dcp.ConnectionTimeout, c.ConnectionTimeout = in[6], in[7]
	c.Dcp.Group.Membership.RebalanceDelay = rd
	for round := 0; round < 2; round++ {
		c.applyDefaultRollbackMitigation()
		c.applyDefaultCheckpoint()
		c.applyDefaultHealthCheck()
		c.applyDefaultConnectionTimeout()
		c.applyDefaultGroupMembership()
		assert(c.RollbackMitigation.Interval == vDefDur(in[0], time.Second), "rollbackMitigation.interval: 1s when unset, else untouched")
		assert(c.RollbackMitigation.ConfigWatchInterval == vDefDur(in[1], 10*time.Second), "rollbackMitigation.configWatchInterval: 10s when unset")
		assert(c.Checkpoint.Interval == vDefDur(in[2], time.Minute), "checkpoint.interval: 1m when unset")
		assert(c.Checkpoint.Timeout == vDefDur(in[3], time.Minute), "checkpoint.timeout: 1m when unset")
		assert(c.HealthCheck.Interval == vDefDur(in[4], time.Minute), "healthCheck.interval: 1m when unset")
		assert(c.HealthCheck.Timeout == vDefDur(in[5], time.Minute), "healthCheck.timeout: 1m when unset")
		assert(c.Dcp.ConnectionTimeout == vDefDur(in[6], time.Minute), "dcp.connectionTimeout: 1m when unset")
		assert(c.ConnectionTimeout == vDefDur(in[7], time.Minute), "connectionTimeout: 1m when unset")
		assert(c.Dcp.Group.Membership.RebalanceDelay == vDefDur(rd, 30*time.Second), "rebalanceDelay: 30s when unset")
	}
	cover("durations")
}

// H_C17_strings: every string option, each 0..2 arbitrary bytes.
func H_C17_strings() {
	setMerge(true)
	logger.Log = vDiscardLogger{}
	c := &Dcp{}
	in := [7]string{vStr("cpType"), vStr("autoReset"), vStr("mType"), vStr("scope"), vStr("metricPath"), vStr("leType"), vStr("mdType")}
	c.Checkpoint.Type, c.Checkpoint.AutoReset = in[0], in[1]
	c.Dcp.Group.Membership.Type = in[2]
	c.ScopeName, c.Metric.Path, c.LeaderElection.Type, c.Metadata.Type = in[3], in[4], in[5], in[6]
	hasColl := nondetBool("hasCollections")
	if hasColl {
		c.CollectionNames = []string{"x"}
	}
	for round := 0; round < 2; round++ {
		c.applyDefaultCheckpoint()
		c.applyDefaultGroupMembership()
		c.applyDefaultScopeName()
		c.applyDefaultMetrics()
		c.applyDefaultLeaderElection()
		c.applyDefaultMetadata()
		c.applyDefaultCollections()
		assert(c.Checkpoint.Type == vDefStr(in[0], "auto"), "checkpoint.type: auto when unset")
		assert(c.Checkpoint.AutoReset == vDefStr(in[1], "earliest"), "checkpoint.autoReset: earliest when unset")
		assert(c.Dcp.Group.Membership.Type == vDefStr(in[2], "couchbase"), "membership.type: couchbase when unset")
		assert(c.ScopeName == vDefStr(in[3], "_default"), "scopeName: _default when unset")
		assert(c.Metric.Path == vDefStr(in[4], "/metrics"), "metric.path: /metrics when unset")
		assert(c.LeaderElection.Type == vDefStr(in[5], "kubernetes"), "leaderElection.type: kubernetes when unset")
		assert(c.Metadata.Type == vDefStr(in[6], "couchbase"), "metadata.type: couchbase when unset")
		if hasColl {
			assert(len(c.CollectionNames) == 1 && c.CollectionNames[0] == "x", "collectionNames untouched when set")
		} else {
			assert(len(c.CollectionNames) == 1 && c.CollectionNames[0] == "_default", "collectionNames: [_default] when unset")
		}
	}
	cover("strings")
}

// H_C17_ints: integer options, the `any` size options, and the environment
// overrides of member number / group size (0..2 arbitrary bytes each).
func H_C17_ints() {
	setMerge(true)
	logger.Log = vDiscardLogger{}
	c := &Dcp{}
	in := [6]int{nondetInt("total"), nondetInt("member"), nondetInt("maxQueue"), nondetInt("apiPort"), nondetInt("rpcPort"), nondetInt("dcpMaxQueue")}
	c.Dcp.Group.Membership.TotalMembers, c.Dcp.Group.Membership.MemberNumber = in[0], in[1]
	c.MaxQueueSize, c.API.Port, c.LeaderElection.RPC.Port, c.Dcp.MaxQueueSize = in[2], in[3], in[4], in[5]
	setAny := nondetBool("setAny")
	if setAny {
		c.ConnectionBufferSize, c.Dcp.BufferSize, c.Dcp.ConnectionBufferSize = 7, "3mb", uint(9)
	}
	envT, envM := vStr("envTotal"), vStr("envMember")
	vEnv["GO_DCP__DCP_GROUP_MEMBERSHIP_TOTALMEMBERS"] = envT
	vEnv["GO_DCP__DCP_GROUP_MEMBERSHIP_MEMBERNUMBER"] = envM
	isNum := func(s string) (int, bool) {
		if len(s) == 0 {
			return 0, false
		}
		v := 0
		for i := 0; i < len(s); i++ {
			if s[i] < '0' || s[i] > '9' {
				return 0, false
			}
			v = v*10 + int(s[i]-'0')
		}
		return v, true
	}
	// signs are accepted by Atoi too; keep the override domain to digits and garbage without sign
	for i := 0; i < len(envT); i++ {
		assume(envT[i] != '+' && envT[i] != '-' && envT[i] != '_')
	}
	for i := 0; i < len(envM); i++ {
		assume(envM[i] != '+' && envM[i] != '-' && envM[i] != '_')
	}
	tv, tok := isNum(envT)
	mv, mok := isNum(envM)
	mustPanic := (envT != "" && !tok) || (envM != "" && !mok)
	p, _ := expectPanic(func() {
		c.applyDefaultGroupMembership()
		c.applyDefaultMaxQueueSize()
		c.applyDefaultAPI()
		c.applyDefaultLeaderElection()
		c.applyDefaultDcp()
		c.applyDefaultConnectionBufferSize()
	})
	assert(p == mustPanic, "a non-numeric environment override is refused, everything else is accepted")
	if p {
		cover("env-refused")
		return
	}
	wantT, wantM := vDefInt(in[0], 1), vDefInt(in[1], 1)
	if envT != "" {
		cover("env-total")
		wantT = tv
	}
	if envM != "" {
		cover("env-member")
		wantM = mv
	}
	assert(c.Dcp.Group.Membership.TotalMembers == wantT, "totalMembers: env override, else file value, else 1")
	assert(c.Dcp.Group.Membership.MemberNumber == wantM, "memberNumber: env override, else file value, else 1")
	assert(c.MaxQueueSize == vDefInt(in[2], 2048), "maxQueueSize: 2048 when unset")
	assert(c.API.Port == vDefInt(in[3], 8080), "api.port: 8080 when unset")
	assert(c.LeaderElection.RPC.Port == vDefInt(in[4], 8081), "leaderElection.rpc.port: 8081 when unset")
	assert(c.Dcp.MaxQueueSize == vDefInt(in[5], 2048), "dcp.maxQueueSize: 2048 when unset")
	if setAny {
		assert(c.ConnectionBufferSize == any(7) && c.Dcp.BufferSize == any("3mb") && c.Dcp.ConnectionBufferSize == any(uint(9)), "explicit size options untouched")
	} else {
		assert(c.ConnectionBufferSize == any(20*1024*1024) && c.Dcp.BufferSize == any(16*1024*1024) && c.Dcp.ConnectionBufferSize == any(20*1024*1024),
			"size options default to 20mb / 16mb / 20mb in bytes")
	}
	cover("ints")
}

// H_C17_compose: ApplyDefaults on the all-unset configuration equals the
// documented defaults and is idempotent; derived settings inherit and override.
func H_C17_compose() {
	logger.Log = vDiscardLogger{}
	c := &Dcp{Hosts: []string{"h1"}, Username: "u", Password: "p", BucketName: "b", RootCAPath: "ca", SecureConnection: true}
	c.ApplyDefaults()
	d := *c
	c.ApplyDefaults()
	assert(c.Checkpoint == d.Checkpoint && c.HealthCheck == d.HealthCheck && c.RollbackMitigation == d.RollbackMitigation &&
		c.MaxQueueSize == d.MaxQueueSize && c.API == d.API && c.Metric == d.Metric && c.ScopeName == d.ScopeName &&
		c.ConnectionTimeout == d.ConnectionTimeout && c.Dcp.MaxQueueSize == d.Dcp.MaxQueueSize && c.Metadata.Type == d.Metadata.Type, "ApplyDefaults is idempotent")
	assert(c.Checkpoint.Type == "auto" && c.Checkpoint.AutoReset == "earliest" && c.Checkpoint.Interval == time.Minute && c.Dcp.Group.Membership.TotalMembers == 1 &&
		c.Dcp.Group.Membership.MemberNumber == 1 && c.Dcp.Group.Membership.RebalanceDelay == 30*time.Second && c.Metadata.Type == "couchbase", "all-unset configuration gets the documented defaults")
	md := c.GetCouchbaseMetadata()
	assert(len(md.Hosts) == 1 && md.Hosts[0] == "h1" && md.Username == "u" && md.Password == "p" && md.Bucket == "b" && md.RootCAPath == "ca" && md.SecureConnection &&
		md.Scope == "_default" && md.Collection == "_default" && md.MaxQueueSize == 2048 && md.ConnectionBufferSize == 5242880 && md.ConnectionTimeout == time.Minute,
		"metadata connection inherits the main connection and the documented defaults")
	// key-by-key overrides with arbitrary short values
	ub, bb, sb, cb := vStr("o.user"), vStr("o.bucket"), vStr("o.scope"), vStr("o.coll")
	c.Metadata.Config = map[string]string{}
	if nondetBool("ovUser") {
		c.Metadata.Config["username"] = ub
	}
	if nondetBool("ovBucket") {
		c.Metadata.Config["bucket"] = bb
	}
	if nondetBool("ovScope") {
		c.Metadata.Config["scope"] = sb
	}
	if nondetBool("ovColl") {
		c.Metadata.Config["collection"] = cb
	}
	if nondetBool("ovTyped") {
		c.Metadata.Config["maxQueueSize"] = "77"
		c.Metadata.Config["connectionBufferSize"] = "2kb"
		c.Metadata.Config["connectionTimeout"] = "5s"
		c.Metadata.Config["secureConnection"] = "false"
		c.Metadata.Config["hosts"] = "a,b"
	}
	md = c.GetCouchbaseMetadata()
	_, ou := c.Metadata.Config["username"]
	_, ob := c.Metadata.Config["bucket"]
	_, os := c.Metadata.Config["scope"]
	_, oc := c.Metadata.Config["collection"]
	_, ot := c.Metadata.Config["maxQueueSize"]
	assert(md.Username == map[bool]string{true: ub, false: "u"}[ou], "username: overridden key by key")
	assert(md.Bucket == map[bool]string{true: bb, false: "b"}[ob], "bucket: overridden key by key")
	assert(md.Scope == map[bool]string{true: sb, false: "_default"}[os], "scope: overridden key by key")
	assert(md.Collection == map[bool]string{true: cb, false: "_default"}[oc], "collection: overridden key by key")
	if ot {
		cover("typed-overrides")
		assert(md.MaxQueueSize == 77 && md.ConnectionBufferSize == 2048 && md.ConnectionTimeout == 5*time.Second && !md.SecureConnection && len(md.Hosts) == 2 && md.Hosts[1] == "b",
			"typed overrides are parsed to their value")
	} else {
		assert(md.MaxQueueSize == 2048 && md.ConnectionBufferSize == 5242880 && md.SecureConnection, "typed settings inherited")
	}
	mb := c.GetCouchbaseMembership()
	assert(mb.ExpirySeconds == 120 && mb.HeartbeatInterval == 10*time.Second && mb.HeartbeatToleranceDuration == time.Minute && mb.MonitorInterval == 30*time.Second && mb.Timeout == 30*time.Second,
		"membership settings take their documented defaults")
	c.Dcp.Group.Membership.Config = map[string]string{"expirySeconds": "9", "heartbeatInterval": "2s", "monitorInterval": "3s"}
	mb = c.GetCouchbaseMembership()
	assert(mb.ExpirySeconds == 9 && mb.HeartbeatInterval == 2*time.Second && mb.MonitorInterval == 3*time.Second && mb.HeartbeatToleranceDuration == time.Minute && mb.Timeout == 30*time.Second,
		"membership overrides apply key by key")
	c.LeaderElection.Config = map[string]string{"leaseLockName": "l", "leaseLockNamespace": "n", "retryPeriod": "4s"}
	le := c.GetKubernetesLeaderElector()
	assert(le.LeaseLockName == "l" && le.LeaseLockNamespace == "n" && le.LeaseDuration == 8*time.Second && le.RenewDeadline == 5*time.Second && le.RetryPeriod == 4*time.Second,
		"leader-election settings: defaults unless overridden")
	cover("compose")
}
