package config

import (
	"time"

	"github.com/Trendyol/go-dcp/logger"
)

func init() { vHarnesses["SELF_config"] = H_SELF_config }

// Inputs of TestDefaultConfig / TestGetCouchbaseMetadata / TestDcpMode.
func H_SELF_config() {
	logger.Log = vDiscardLogger{}
	c := &Dcp{}
	c.ApplyDefaults()
	assert(c.Checkpoint.Type == "auto" && c.Checkpoint.AutoReset == "earliest" && c.Checkpoint.Interval == time.Minute && c.Checkpoint.Timeout == time.Minute, "checkpoint defaults")
	assert(c.HealthCheck.Interval == time.Minute && c.HealthCheck.Timeout == time.Minute && c.RollbackMitigation.Interval == time.Second, "health / mitigation defaults")
	assert(c.ScopeName == "_default" && len(c.CollectionNames) == 1 && c.CollectionNames[0] == "_default" && c.MaxQueueSize == 2048 && c.API.Port == 8080, "misc defaults")
	assert(c.ConnectionBufferSize == any(20971520) && c.Dcp.BufferSize == any(16777216), "size defaults")
	assert(!c.IsDcpModeFinite(), "mode empty")
	c.Dcp.Mode = DcpModeFinite
	assert(c.IsDcpModeFinite(), "mode finite")
	c.Dcp.Mode = DcpModeInfinite
	assert(!c.IsDcpModeFinite(), "mode infinite")
	cover("self")
}
