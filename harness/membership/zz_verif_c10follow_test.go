package membership

// C10 (dynamic membership): the member follows the numbering announced over the bus.

type vFollowBus struct {
	handler func(*Model)
	unsub   int
}

func (b *vFollowBus) Subscribe(string, interface{}) error { return nil }
func (b *vFollowBus) SubscribeAsync(_ string, fn interface{}, _ bool) error {
	b.handler = fn.(func(*Model))
	return nil
}
func (b *vFollowBus) SubscribeOnce(string, interface{}) error      { return nil }
func (b *vFollowBus) SubscribeOnceAsync(string, interface{}) error { return nil }
func (b *vFollowBus) Unsubscribe(string, interface{}) error        { b.unsub++; return nil }
func (b *vFollowBus) Publish(string, ...interface{})               {}
func (b *vFollowBus) HasCallback(string) bool                      { return false }
func (b *vFollowBus) WaitAsync()                                   {}

// H_C10_dynamic: start-up asks for the numbering before, between or after three
// announcements with arbitrary (number, size) pairs. The first answer is the
// first announced pair (the call waits for it, it never invents one), every
// later answer is the most recently announced pair, and no announcement leaves
// a goroutine behind.
func H_C10_dynamic() {
	setPreempt(1)
	bus := &vFollowBus{}
	m := NewDynamicMembership(bus)
	assert(bus.handler != nil, "subscribed to membership announcements")
	var ann [3]*Model
	for i := range ann {
		ann[i] = &Model{MemberNumber: nondetInt("n"), TotalMembers: nondetInt("t")}
	}
	askAt := choose("first-ask-before-announcement", 3) // the first GetInfo is issued before announcement #askAt
	var first *Model
	done := false
	for i := 0; i < 3; i++ {
		if i == askAt {
			spawnEnv(func() {
				first = m.GetInfo()
				done = true
			})
		}
		bus.handler(ann[i])
		if done {
			got := m.GetInfo()
			assert(got.MemberNumber == ann[i].MemberNumber && got.TotalMembers == ann[i].TotalMembers, "the numbering in effect is the most recently announced one")
		}
	}
	quiesce()
	assert(done && first != nil, "the waiting start-up is released by an announcement")
	ok := false
	for i := 0; i < 3; i++ {
		if first.MemberNumber == ann[i].MemberNumber && first.TotalMembers == ann[i].TotalMembers {
			ok = true
		}
	}
	assert(ok, "the first answer is an announced numbering, never an invented one")
	if askAt == 0 {
		cover("asked-before-any-announcement")
	}
	last := m.GetInfo()
	assert(last.MemberNumber == ann[2].MemberNumber && last.TotalMembers == ann[2].TotalMembers, "finally the last announced numbering is in effect")
	// an announcement that arrives before the asker is actually waiting parks its hand-over
	// goroutine on the unbuffered channel for good (GetInfo then answers from the stored
	// value): at most one leaked goroutine per process, outside what C10 states
	assert(blockedThreads() <= 1, "at most the one unclaimed hand-over goroutine remains")
	m.Close()
	assert(bus.unsub == 1, "Close unsubscribes")
	cover("dynamic")
}
