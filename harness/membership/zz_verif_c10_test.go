package membership

// C10 (change test, static numbering).

import "github.com/Trendyol/go-dcp/config"

func init() {
	vHarnesses["C10_ischanged"] = H_C10_ischanged
}

func H_C10_ischanged() {
	a := &Model{MemberNumber: nondetInt("a.n"), TotalMembers: nondetInt("a.t")}
	b := &Model{MemberNumber: nondetInt("b.n"), TotalMembers: nondetInt("b.t")}
	assert(a.IsChanged(nil), "no numbering in effect: always announced")
	same := a.MemberNumber == b.MemberNumber && a.TotalMembers == b.TotalMembers
	assert(a.IsChanged(b) == !same, "a numbering is announced exactly when it differs from the one in effect")
	assert(a.IsChanged(b) == b.IsChanged(a), "symmetric")
	assert(!a.IsChanged(a), "a repeated numbering causes no announcement")
	if same {
		cover("same")
	} else {
		cover("different")
	}
	cfg := &config.Dcp{}
	cfg.Dcp.Group.Membership.MemberNumber, cfg.Dcp.Group.Membership.TotalMembers = a.MemberNumber, a.TotalMembers
	m := NewStaticMembership(cfg)
	i := m.GetInfo()
	assert(i.MemberNumber == a.MemberNumber && i.TotalMembers == a.TotalMembers, "static membership is the configured numbering")
	m.Close()
}
