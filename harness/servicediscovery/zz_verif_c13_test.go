package servicediscovery

// C13 (leader-election membership): StopMonitor / StopHeartbeat end the two
// background goroutines of the service discovery.

import (
	"time"

	"github.com/Trendyol/go-dcp/config"
)

// H_C13_sd: a leader with one follower runs its real monitor and heart-beat
// goroutines on the virtual clock; the stop calls of dcp.close() arrive during
// the start delay, between rounds, or at a round instant. Run to quiescence:
// both goroutines have ended, and after the stop calls returned at most the
// one round whose wait was already running pings or renumbers the follower.
func H_C13_sd() {
	setMerge(true)
	setPreempt(0)
	cfg := &config.Dcp{}
	cfg.Dcp.Group.Membership.RebalanceDelay = time.Second
	sd := NewServiceDiscovery(cfg, &vBus{}).(*serviceDiscovery)
	var log []vRebalanceCall
	f := &vFollower{name: "f0", log: &log}
	sd.Add(NewService(f, "f0", 1))
	sd.BeLeader()
	sd.StartHeartbeat()
	sd.StartMonitor()
	when := []time.Duration{0, 500 * time.Millisecond, 3 * time.Second, 6 * time.Second, 7 * time.Second, 11100 * time.Millisecond}[choose("when", 6)]
	time.Sleep(when)
	if when >= 7*time.Second {
		assert(len(log) >= 1, "a monitor round ran before the stop")
		cover("stopped-after-a-round")
	} else {
		cover("stopped-before-a-round")
	}
	sd.StopMonitor()
	sd.StopHeartbeat()
	before := len(log)
	setHorizon(nowNs() + int64(time.Minute))
	quiesce()
	assert(blockedThreads() == 0, "monitor and heart-beat goroutines have ended")
	assert(len(log)-before <= 1, "at most the round already waiting renumbers the follower after the stop")
	if when == 0 {
		// stopped inside the start delay: the monitor loop is never entered
		assert(len(log) == 0, "a monitor stopped before its start delay elapsed never renumbers anyone")
	}
}
