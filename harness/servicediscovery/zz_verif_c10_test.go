package servicediscovery

// C10 (leader-assigned numbering): the leader numbers itself 1 and its
// followers 2..n+1 in join order, every monitor round.

import (
	"errors"
	"time"

	"github.com/Trendyol/go-dcp/config"
	"github.com/Trendyol/go-dcp/membership"
)

type vRebalanceCall struct {
	name          string
	member, total int
}

type vFollower struct {
	name     string
	log      *[]vRebalanceCall
	pingFail bool
	rebFail  bool
	closed   bool
	closeErr error // what closing the connection to this follower reports
}

func (f *vFollower) Close() error      { f.closed = true; return f.closeErr }
func (f *vFollower) Ping() error {
	if f.pingFail {
		return errors.New("ping failed")
	}
	return nil
}
func (f *vFollower) Register() error   { return nil }
func (f *vFollower) IsConnected() bool { return true }
func (f *vFollower) Reconnect() error  { return nil }
func (f *vFollower) Rebalance(memberNumber int, totalMembers int) error {
	*f.log = append(*f.log, vRebalanceCall{f.name, memberNumber, totalMembers})
	if f.rebFail {
		return errors.New("rebalance rpc failed")
	}
	return nil
}

type vBus struct{ published []*membership.Model }

func (b *vBus) Subscribe(string, interface{}) error            { return nil }
func (b *vBus) SubscribeAsync(string, interface{}, bool) error { return nil }
func (b *vBus) SubscribeOnce(string, interface{}) error        { return nil }
func (b *vBus) SubscribeOnceAsync(string, interface{}) error   { return nil }
func (b *vBus) Unsubscribe(string, interface{}) error          { return nil }
func (b *vBus) Publish(_ string, args ...interface{})          { b.published = append(b.published, args[0].(*membership.Model)) }
func (b *vBus) HasCallback(string) bool                        { return false }
func (b *vBus) WaitAsync()                                     {}

// H_C10_leader: n<=3 followers with arbitrary distinct join times and
// arbitrary ping/rebalance failures; two monitor rounds on the virtual clock.
func H_C10_leader() {
	setMerge(true)
	maxF := 4
	if tierThorough() {
		maxF = 6 // sizes up to 7 (leader + 5 followers); join-time orders are explored symbolically (n! paths)
	}
	n := choose("followers", maxF)
	cfg := &config.Dcp{}
	cfg.Dcp.Group.Membership.RebalanceDelay = time.Second
	bus := &vBus{}
	sd := NewServiceDiscovery(cfg, bus).(*serviceDiscovery)
	var log []vRebalanceCall
	names := []string{"f0", "f1", "f2", "f3", "f4"}
	jt := make([]int64, n)
	fs := make([]*vFollower, n)
	for i := 0; i < n; i++ {
		jt[i] = nondetI64("join")
		for j := 0; j < i; j++ {
			assume(jt[i] != jt[j])
		}
		fs[i] = &vFollower{name: names[i], log: &log, rebFail: nondetBool("rebalanceFails")}
		sd.Add(NewService(fs[i], names[i], jt[i]))
	}
	// join-order rank of follower i (independent of the code's sort)
	rank := func(i int) int {
		r := 0
		for j := 0; j < n; j++ {
			if jt[j] < jt[i] {
				r++
			}
		}
		return r
	}
	got := sd.GetAll()
	assert(len(got) == n, "all followers listed")
	for i := 0; i < n; i++ {
		assert(got[rank(i)] == names[i], "followers are listed in join order")
	}
	sd.BeLeader()
	sd.StartMonitor()
	time.Sleep(time.Second + 5*time.Second + 100*time.Millisecond) // one round
	assert(len(bus.published) == 1 && bus.published[0].MemberNumber == 1 && bus.published[0].TotalMembers == n+1, "the leader numbers itself 1 of n+1, announced once")
	assert(len(log) == n, "every follower is told its number each round")
	for i := 0; i < n; i++ {
		// the call to follower i
		found := false
		for _, c := range log {
			if c.name == names[i] {
				found = true
				assert(c.member == rank(i)+2 && c.total == n+1, "follower numbers are 2..n+1 in join order, same group size for all")
			}
		}
		assert(found, "follower told")
	}
	// between the rounds the follower set stays, grows, shrinks, or changes composition at the same size
	change := 0
	if n <= 3 {
		change = choose("change", 4) // larger follower sets (thorough tier) only re-run the round unchanged
	}
	type vf struct {
		name string
		jt   int64
	}
	cur := []vf{}
	for i := 0; i < n; i++ {
		cur = append(cur, vf{names[i], jt[i]})
	}
	switch change {
	case 1, 3:
		if change == 3 {
			assume(n > 0)
			victim := choose("victim", n)
			sd.Remove(names[victim])
			cur = append(cur[:victim:victim], cur[victim+1:]...)
			cover("replaced")
		} else {
			cover("joined")
		}
		njt := nondetI64("join.new")
		for _, c := range cur {
			assume(njt > c.jt) // a newly started instance joins after the ones already there
		}
		nf := &vFollower{name: "new", log: &log}
		sd.Add(NewService(nf, "new", njt))
		cur = append(cur, vf{"new", njt})
	case 2:
		assume(n > 0)
		victim := choose("victim", n)
		sd.Remove(names[victim])
		cur = append(cur[:victim:victim], cur[victim+1:]...)
		cover("left")
	}
	round1 := len(log)
	time.Sleep(5 * time.Second) // second round
	if len(cur) == n {
		assert(len(bus.published) == 1, "an unchanged group size is not announced again")
	} else {
		assert(len(bus.published) == 2 && bus.published[1].MemberNumber == 1 && bus.published[1].TotalMembers == len(cur)+1, "a changed group size is announced once")
	}
	// within one round every current follower holds its number in join order: a new
	// instance is admitted, the survivors of a death move up
	assert(len(log)-round1 == len(cur), "every current follower is told its number in the next round")
	for i, c := range cur {
		r := 0
		for _, o := range cur {
			if o.jt < c.jt {
				r++
			}
		}
		found := false
		for _, call := range log[round1:] {
			if call.name == c.name {
				found = true
				assert(call.member == r+2 && call.total == len(cur)+1, "after a change followers are numbered 2..n+1 in join order again")
			}
		}
		assert(found, "follower told after the change")
		_ = i
	}
	sd.StopMonitor()
	setHorizon(nowNs() + int64(time.Minute))
	quiesce()
	cover("leader")
}

// H_C10_drop: a follower dies silently (its pings fail from now on; closing the
// broken connection may itself report an error). Within one heart-beat round
// and the monitor round after it the leader has dropped it: it is no longer
// listed, the group size is that of the live set, and the survivors hold
// 2..n in join order.
func H_C10_drop() {
	setMerge(true)
	setPreempt(0)
	n := 2 + choose("followers", 2) // 2..3 followers before the death
	cfg := &config.Dcp{}
	cfg.Dcp.Group.Membership.RebalanceDelay = time.Second
	bus := &vBus{}
	sd := NewServiceDiscovery(cfg, bus).(*serviceDiscovery)
	var log []vRebalanceCall
	names := []string{"f0", "f1", "f2"}
	fs := make([]*vFollower, n)
	for i := 0; i < n; i++ {
		fs[i] = &vFollower{name: names[i], log: &log}
		sd.Add(NewService(fs[i], names[i], int64(10*(i+1))))
	}
	sd.BeLeader()
	sd.StartHeartbeat()
	sd.StartMonitor()
	time.Sleep(6100 * time.Millisecond) // first monitor round: everybody numbered
	assert(len(log) == n, "every follower numbered in the first round")
	victim := choose("victim", n)
	fs[victim].pingFail = true
	fs[victim].rebFail = true
	if nondetBool("close-reports-an-error") {
		fs[victim].closeErr = errors.New("connection reset by peer")
		cover("close-error")
	}
	before := len(log)
	time.Sleep(10 * time.Second) // two more heart-beat and monitor rounds
	got := sd.GetAll()
	assert(len(got) == n-1, "the dead follower is dropped within two rounds")
	for _, g := range got {
		assert(g != names[victim], "the dead follower is no longer listed")
	}
	// the last round numbered exactly the survivors, 2..n in join order, with the live group size
	last := log[before:]
	rank := 0
	for i := 0; i < n; i++ {
		if i == victim {
			continue
		}
		var lastCall *vRebalanceCall
		for k := range last {
			if last[k].name == names[i] {
				lastCall = &last[k]
			}
		}
		assert(lastCall != nil, "survivor renumbered after the death")
		assert(lastCall.member == rank+2 && lastCall.total == n, "survivors hold 2..n in join order, group size = live set")
		rank++
	}
	assert(bus.published[len(bus.published)-1].TotalMembers == n, "the leader announces the live group size")
	sd.StopMonitor()
	sd.StopHeartbeat()
	setHorizon(nowNs() + int64(time.Minute))
	quiesce()
	cover("dropped")
}
