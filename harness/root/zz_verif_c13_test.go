package dcp

// C13 — graceful shutdown is clean from every lifecycle state.
// The dcp struct is assembled directly over fakes; stream, checkpoint,
// observers and the health checker are the real ones.

import (
	"os"
	"time"

	"github.com/Trendyol/go-dcp/config"
	"github.com/Trendyol/go-dcp/couchbase"
	"github.com/Trendyol/go-dcp/models"
	"github.com/Trendyol/go-dcp/stream"
	"github.com/Trendyol/go-dcp/tracing"
	"github.com/Trendyol/go-dcp/wrapper"
	"github.com/couchbase/gocbcore/v10"
	"github.com/prometheus/client_golang/prometheus"
)

func stub__gocbcore_ConfigSnapshot_BucketUUID(pi gocbcore.ConfigSnapshot) string { return "bucket-uuid" }

const vNV = 4

type vClient struct {
	couchbase.Client
	opens      []uint16
	openAt     []int64 // virtual instant of each stream request
	opensAfter int // stream requests made after close() returned
	closes     []uint16
	dcpClosed  int
	closed     int
	pings      int
	observers  map[uint16]couchbase.Observer
	shutdown   bool
	isOpen     [vNV]bool // vBucket stream currently open at the server
	dropOnClose [vNV]bool // the vBucket's connection drops while its stream is being closed: End carries "socket closed"
}

func (c *vClient) GetDcpAgentConfigSnapshot() (*gocbcore.ConfigSnapshot, error) {
	return new(gocbcore.ConfigSnapshot), nil
}
func (c *vClient) GetVBucketSeqNos(bool) (*wrapper.ConcurrentSwissMap[uint16, uint64], error) {
	m := wrapper.CreateConcurrentSwissMap[uint16, uint64](1024)
	for vb := uint16(0); vb < vNV; vb++ {
		m.Store(vb, ^uint64(0))
	}
	return m, nil
}
func (c *vClient) GetFailOverLogs(uint16) ([]gocbcore.FailoverEntry, error) {
	return []gocbcore.FailoverEntry{{}}, nil
}
func (c *vClient) OpenStream(vbID uint16, _ map[uint32]string, _ *models.Offset, obs couchbase.Observer) error {
	c.opens = append(c.opens, vbID)
	c.openAt = append(c.openAt, nowNs())
	if c.shutdown {
		c.opensAfter++
	}
	c.observers[vbID] = obs
	yield()
	c.isOpen[vbID] = true
	return nil
}
func (c *vClient) CloseStream(vbID uint16) error {
	c.closes = append(c.closes, vbID)
	c.isOpen[vbID] = false
	yield()
	if obs, ok := c.observers[vbID]; ok {
		endErr := gocbcore.ErrDCPStreamClosed
		if c.dropOnClose[vbID] {
			endErr = gocbcore.ErrSocketClosed
		}
		spawnEnv(func() { obs.End(models.DcpStreamEnd{VbID: vbID}, endErr) })
	}
	return nil
}
func (c *vClient) DcpClose() { c.dcpClosed++ }
func (c *vClient) Close()    { c.closed++ }
func (c *vClient) Ping() (*models.PingResult, error) {
	c.pings++
	return &models.PingResult{}, nil
}

type vStore struct {
	docs      map[uint16]*models.CheckpointDocument
	saves     int
	savesAfter int
	slow      time.Duration
	fail      bool
	shutdown  bool
}

type vStoreErr struct{}

func (vStoreErr) Error() string { return "store rejected" }

func (f *vStore) Save(state map[uint16]*models.CheckpointDocument, dirty map[uint16]bool, _ string) error {
	f.saves++
	if f.shutdown {
		f.savesAfter++
	}
	if f.slow > 0 {
		time.Sleep(f.slow)
	}
	if f.fail {
		return vStoreErr{}
	}
	for vb, d := range state {
		if dirty[vb] {
			f.docs[vb] = d
		}
	}
	return nil
}
func (f *vStore) Load(vbIds []uint16, bucketUUID string) (*wrapper.ConcurrentSwissMap[uint16, *models.CheckpointDocument], bool, error) {
	st := wrapper.CreateConcurrentSwissMap[uint16, *models.CheckpointDocument](1024)
	for _, vb := range vbIds {
		if d, ok := f.docs[vb]; ok {
			st.Store(vb, d)
		} else {
			st.Store(vb, models.NewEmptyCheckpointDocument(bucketUUID))
		}
	}
	return st, len(f.docs) > 0, nil
}
func (f *vStore) Clear([]uint16) error { return nil }

type vConsumer struct {
	events      []*models.ListenerContext
	afterClose  int
	shutdown    bool
	hold        bool // block inside ConsumeEvent until released
	releaseCh   chan struct{}
	released    bool
	inside      bool
	ackInside   bool
}

func (c *vConsumer) ConsumeEvent(ctx *models.ListenerContext) {
	c.events = append(c.events, ctx)
	if c.shutdown {
		c.afterClose++
	}
	if c.hold {
		c.inside = true
		<-c.releaseCh // parked until the harness lets the application finish this event
		c.inside = false
	}
	if c.ackInside {
		ctx.Ack()
	}
}
func (c *vConsumer) TrackOffset(uint16, *models.Offset) {}

type vDiscovery struct {
	member int
	closed int
}

func (d *vDiscovery) Get() []uint16 {
	if d.member == 1 {
		return []uint16{0, 1}
	}
	return []uint16{2, 3}
}
func (d *vDiscovery) Close()                                    { d.closed++ }
func (d *vDiscovery) GetMetric() *stream.VBucketDiscoveryMetric { return &stream.VBucketDiscoveryMetric{} }

type vBus struct{ unsub int }

func (b *vBus) Subscribe(string, interface{}) error              { return nil }
func (b *vBus) SubscribeAsync(string, interface{}, bool) error   { return nil }
func (b *vBus) SubscribeOnce(string, interface{}) error          { return nil }
func (b *vBus) SubscribeOnceAsync(string, interface{}) error     { return nil }
func (b *vBus) Unsubscribe(string, interface{}) error            { b.unsub++; return nil }
func (b *vBus) Publish(string, ...interface{})                   {}
func (b *vBus) HasCallback(string) bool                          { return false }
func (b *vBus) WaitAsync()                                       {}

type vWorld struct {
	d    *dcp
	cl   *vClient
	st   *vStore
	co   *vConsumer
	disc *vDiscovery
	cfg  *config.Dcp
}

var vOldServer bool // the next world runs against a server below 5.5.0 (streams are closed one at a time)

func vServerVersion() *couchbase.Version {
	if vOldServer {
		return &couchbase.Version{Major: 5, Minor: 0, Patch: 1}
	}
	return &couchbase.Version{Major: 7}
}

func vNewWorld(auto bool, health bool) *vWorld {
	freezeSchedule() // one schedule for the start-up (C02/C15 explore it); everything after is explored
	defer thawSchedule()
	w := &vWorld{cl: &vClient{observers: map[uint16]couchbase.Observer{}}, st: &vStore{docs: map[uint16]*models.CheckpointDocument{}},
		co: &vConsumer{}, disc: &vDiscovery{member: 1}, cfg: &config.Dcp{}}
	cfg := w.cfg
	cfg.RollbackMitigation.Disabled = true
	cfg.API.Disabled = true
	cfg.HealthCheck.Disabled = !health
	cfg.HealthCheck.Interval = 20 * time.Second
	cfg.HealthCheck.Timeout = time.Second
	cfg.Checkpoint.Interval = 7 * time.Second
	cfg.Checkpoint.Type = "manual"
	if auto {
		cfg.Checkpoint.Type = "auto"
	}
	cfg.Dcp.Group.Membership.RebalanceDelay = 10 * time.Second
	cfg.Dcp.Group.Membership.Type = "couchbase"
	stopCh := make(chan struct{}, 1)
	st := stream.NewStream(w.cl, w.st, cfg, vServerVersion(), &couchbase.BucketInfo{}, w.disc, w.co,
		map[uint32]string{}, stopCh, models.DefaultEventHandler, tracing.NewTracerComponent())
	w.d = &dcp{
		client: w.cl, consumer: w.co, config: cfg, version: vServerVersion(), bucketInfo: &couchbase.BucketInfo{},
		apiShutdown: make(chan struct{}, 1), cancelCh: make(chan os.Signal, 1), stopCh: stopCh, readyCh: make(chan struct{}, 1),
		metricCollectors: []prometheus.Collector{}, eventHandler: models.DefaultEventHandler, bus: &vBus{},
		stream: st, vBucketDiscovery: w.disc, metadata: w.st,
	}
	st.Open()
	if health {
		w.d.healthCheck = couchbase.NewHealthCheck(&cfg.HealthCheck, w.cl)
		w.d.healthCheck.Start()
	}
	return w
}

// deliver hands one in-snapshot mutation to the vBucket's real observer.
func (w *vWorld) deliver(vb uint16, seq uint64) {
	obs := w.cl.observers[vb]
	obs.SnapshotMarker(models.DcpSnapshotMarker{StartSeqNo: seq, EndSeqNo: seq, VbID: vb})
	obs.Mutation(gocbcore.DcpMutation{SeqNo: seq, VbID: vb, Key: []byte("k")})
}

func (w *vWorld) tracked(vb uint16) *models.Offset {
	offs, _, _ := w.d.stream.GetOffsets()
	o, _ := offs.Load(vb)
	return o
}

// afterClose: close() has returned. Nothing may happen afterwards.
func (w *vWorld) afterClose() {
	w.cl.shutdown, w.st.shutdown, w.co.shutdown = true, true, true
	pings := w.cl.pings
	if w.co.releaseCh != nil && !w.co.released {
		close(w.co.releaseCh)
	}
	w.co.released = true
	setHorizon(nowNs() + int64(2*time.Minute))
	quiesce()
	assert(w.co.afterClose == 0, "no event is handed to the consumer after Close() has returned")
	assert(w.cl.pings == pings, "health checking has stopped")
	assert(w.cl.opensAfter == 0, "no stream is (re)opened after Close() has returned")
	assert(w.st.savesAfter <= 1, "the checkpoint schedule has stopped")
	assert(w.cl.dcpClosed == 1 && w.cl.closed == 1, "connections closed exactly once")
	assert(w.disc.closed == 1, "membership stopped")
}

// H_C13_idle: Close() when idle / after acknowledged progress, every
// combination of automatic checkpointing and health checking, the closing
// save succeeding, being slow, or being rejected.
func H_C13_idle() {
	setMerge(true)
	setPreempt(0) // 45k paths already at blocking-point orders; with a pre-emption the space exceeds the path budget
	auto := nondetBool("auto")
	health := nondetBool("health")
	w := vNewWorld(auto, health)
	w.co.ackInside = true
	seq := nondetU64("seq")
	assume(seq > 0)
	progressed := nondetBool("progressed")
	if progressed {
		w.deliver(0, seq)
	}
	switch choose("store", 3) {
	case 1:
		w.st.slow = 3 * time.Second
	case 2:
		w.st.fail = true
	}
	whens := []time.Duration{0, 8 * time.Second, 21 * time.Second}
	if tierThorough() {
		whens = []time.Duration{0, 6999 * time.Millisecond, 7 * time.Second, 8 * time.Second, 20 * time.Second, 21 * time.Second, 28 * time.Second}
	}
	time.Sleep(whens[choose("when", len(whens))])
	want := w.tracked(0)
	w.d.close()
	cover("closed")
	if auto && progressed && !w.st.fail {
		cover("durable")
		d, ok := w.st.docs[0]
		assert(ok && d.Checkpoint.SeqNo == want.SeqNo && d.Checkpoint.Snapshot.StartSeqNo == want.StartSeqNo, "with automatic checkpointing every position settled before Close() is durably stored")
	}
	assert(len(w.cl.closes) == 2, "every open vBucket stream is closed")
	w.afterClose()
}

// H_C13_delivery: Close() while a consumer is in the middle of ConsumeEvent.
func H_C13_delivery() {
	setMerge(true)
	vC13Preempt()
	vOldServer = nondetBool("serverBelow550")
	if vOldServer {
		cover("serial-close")
	}
	w := vNewWorld(nondetBool("auto"), false)
	w.co.hold = true
	w.co.releaseCh = make(chan struct{})
	w.co.ackInside = nondetBool("ackLate")
	spawnEnv(func() { w.deliver(1, 5) })
	for !w.co.inside {
		time.Sleep(10 * time.Millisecond)
	}
	cover("inside-consumer")
	w.d.close()
	cover("closed")
	assert(len(w.cl.closes) == 2, "every open vBucket stream is closed")
	w.afterClose()
	assert(len(w.co.events) == 1, "only the event that was already being processed was seen")
}

// H_C13_rebalance: Close() inside a rebalance window: after the stream was
// closed (during the delay) or while it is being reopened.
func H_C13_rebalance() {
	setMerge(true)
	vC13Preempt()
	w := vNewWorld(nondetBool("auto"), false)
	w.disc.member = 2
	freezeSchedule() // the rebalance itself is C11's subject: one schedule for it, all schedules for the shutdown
	w.d.stream.Rebalance() // returns once the stream is closed and the delay timer is armed
	phase := choose("phase", 3)
	switch phase {
	case 0:
		cover("right-after-close")
	case 1:
		cover("during-delay")
		time.Sleep(4 * time.Second)
	case 2:
		cover("after-reopen")
		time.Sleep(11 * time.Second)
	}
	thawSchedule()
	if phase < 2 {
		// kept apart so that a listed finding about the window cannot mask anything else
		p, _ := expectPanic(func() { w.d.close() })
		assert(!p, "Close() during the rebalance delay returns without crashing")
		w.afterCloseInWindow()
		return
	}
	w.d.close()
	assert(len(w.cl.closes) == 4, "both sessions' streams were closed")
	w.afterClose()
}

func (w *vWorld) afterCloseInWindow() {
	w.cl.shutdown, w.st.shutdown, w.co.shutdown = true, true, true
	setHorizon(nowNs() + int64(2*time.Minute))
	quiesce()
	assert(w.cl.opensAfter == 0, "the pending rebalance does not reopen the stream after Close() has returned")
}

// quick: every order at blocking points (0 pre-emptions); thorough: plus one pre-emption.
func vC13Preempt() {
	if tierThorough() {
		setPreempt(1)
	} else {
		setPreempt(0)
	}
}

// ---- rollback mitigation enabled: scripted KV agent for the poller ----

var vObserveCalls int
var vObserveAfterClose int
var vShutdown bool

type vNoOp struct{}

func (vNoOp) Cancel() {}

func stub__gocbcore_Agent_WaitForConfigSnapshot(agent *gocbcore.Agent, deadline time.Time, opts gocbcore.WaitForConfigSnapshotOptions, cb gocbcore.WaitForConfigSnapshotCallback) (gocbcore.PendingOp, error) {
	cb(&gocbcore.WaitForConfigSnapshotResult{Snapshot: new(gocbcore.ConfigSnapshot)}, nil)
	return vNoOp{}, nil
}

// vPersisted is what every copy reports as persisted.
var vPersisted = ^gocbcore.SeqNo(0) >> 1

func stub__gocbcore_Agent_ObserveVb(agent *gocbcore.Agent, opts gocbcore.ObserveVbOptions, cb gocbcore.ObserveVbCallback) (gocbcore.PendingOp, error) {
	vObserveCalls++
	if vShutdown {
		vObserveAfterClose++
	}
	// the reply arrives inline: what is explored here is Stop against the poller, not reply timing (that is C07/C20)
	cb(&gocbcore.ObserveVbResult{VbID: opts.VbID, VbUUID: 1, PersistSeqNo: vPersisted}, nil)
	return vNoOp{}, nil
}

func stub__gocbcore_NewBestEffortRetryStrategy(calc gocbcore.BackoffCalculator) *gocbcore.BestEffortRetryStrategy {
	return nil
}
func stub__gocbcore_ConfigSnapshot_NumReplicas(pi gocbcore.ConfigSnapshot) (int, error) { return 1, nil }
func stub__gocbcore_ConfigSnapshot_VbucketToServer(pi gocbcore.ConfigSnapshot, vbID uint16, replicaIdx uint32) (int, error) {
	return int(replicaIdx), nil
}

func (c *vClient) GetAgent() *gocbcore.Agent { return nil }

// H_C13_mitigation: Close() with rollback mitigation enabled: at once after
// start-up (the poller goroutine may not have started yet), between polls,
// and while observe replies are outstanding.
func H_C13_mitigation() { vC13Mitigation(false) }

// H_C13_parked: Close() while vBucket 0's delivering goroutine waits at the
// persistence gate. Quick tier: one schedule per Close() instant (the
// close-vs-gate interleavings are C07_gate's subject); thorough tier: all
// orders at blocking points during Close() for the 3 s instant.
func H_C13_parked() { vC13Mitigation(true) }

func vC13Mitigation(parked bool) {
	setMerge(true)
	setPreempt(0)
	vObserveCalls, vObserveAfterClose, vShutdown = 0, 0, false
	vPersisted = ^gocbcore.SeqNo(0) >> 1
	if parked {
		vPersisted = 5
	}
	w := &vWorld{cl: &vClient{observers: map[uint16]couchbase.Observer{}}, st: &vStore{docs: map[uint16]*models.CheckpointDocument{}},
		co: &vConsumer{}, disc: &vDiscovery{member: 1}, cfg: &config.Dcp{}}
	cfg := w.cfg
	cfg.RollbackMitigation.Interval = 2 * time.Second
	cfg.RollbackMitigation.ConfigWatchInterval = 24 * time.Hour // the cluster-map watcher (private-field reflection) stays out of the horizon
	cfg.ConnectionTimeout = time.Second
	cfg.API.Disabled = true
	cfg.HealthCheck.Disabled = true
	cfg.Checkpoint.Type = "manual"
	cfg.Dcp.Group.Membership.Type = "couchbase"
	stopCh := make(chan struct{}, 1)
	st := stream.NewStream(w.cl, w.st, cfg, &couchbase.Version{Major: 7}, &couchbase.BucketInfo{}, w.disc, w.co,
		map[uint32]string{}, stopCh, models.DefaultEventHandler, tracing.NewTracerComponent())
	w.d = &dcp{
		client: w.cl, consumer: w.co, config: cfg, version: &couchbase.Version{Major: 7}, bucketInfo: &couchbase.BucketInfo{},
		apiShutdown: make(chan struct{}, 1), cancelCh: make(chan os.Signal, 1), stopCh: stopCh, readyCh: make(chan struct{}, 1),
		metricCollectors: []prometheus.Collector{}, eventHandler: models.DefaultEventHandler, bus: &vBus{},
		stream: st, vBucketDiscovery: w.disc, metadata: w.st,
	}
	freezeSchedule()
	st.Open()
	thawSchedule()
	deliveryReturned := false
	if parked {
		// vBucket 0 is mid-delivery of an event above the persisted seqNo: its
		// delivering goroutine (gocbcore's read loop) waits at the persistence gate
		spawnEnv(func() {
			w.deliver(0, 10)
			deliveryReturned = true
		})
	}
	consumedBefore := 0
	if parked {
		// the polls of the parked delivery before Close() are not the subject: one schedule for them
		freezeSchedule()
		if tierThorough() {
			time.Sleep(3 * time.Second)
			thawSchedule()
		} else {
			// Close() before the first poll, between polls, at a poll instant, at a report round
			time.Sleep([]time.Duration{0, 3 * time.Second, 3200 * time.Millisecond, 4 * time.Second}[choose("when", 4)])
		}
		consumedBefore = len(w.co.events)
		w.d.close()
		thawSchedule()
	} else {
		time.Sleep([]time.Duration{0, 3 * time.Second, 4 * time.Second}[choose("when", 3)])
		w.d.close()
	}
	cover("closed-with-mitigation")
	vShutdown = true
	w.cl.shutdown, w.st.shutdown, w.co.shutdown = true, true, true
	setHorizon(nowNs() + int64(10*time.Second))
	quiesce()
	if parked {
		cover("closed-with-an-event-parked")
		assert(deliveryReturned, "the delivery waiting at the persistence gate is released by Close() (no goroutine keeps polling)")
		assert(len(w.co.events) == consumedBefore, "the released event is not delivered after Close()")
	}
	assert(vObserveAfterClose == 0, "rollback-mitigation polling has stopped when Close() returns")
	assert(len(w.cl.closes) == 2 && w.cl.dcpClosed == 1, "streams and connections closed")
}

// H_C13_reopen: Close() while the rebalance's reopen is running (the delay
// timer has fired, stream.Open() is in progress on the timer goroutine): every
// order of the two at blocking points. Close() returns without crashing, and
// afterwards nothing is requested, delivered or left open.
func H_C13_reopen() {
	setMerge(true)
	setPreempt(0)
	w := vNewWorld(nondetBool("auto"), false)
	w.disc.member = 2
	freezeSchedule() // the first half of the rebalance and the delay: one schedule
	w.d.stream.Rebalance()
	time.Sleep(10*time.Second - time.Millisecond)
	thawSchedule()
	time.Sleep(time.Millisecond) // the timer fires now: the reopen and Close() race
	cover("close-vs-reopen")
	p, _ := expectPanic(func() { w.d.close() })
	assert(!p, "Close() during the reopen returns without crashing")
	w.afterClose()
	for vb := 0; vb < vNV; vb++ {
		assert(!w.cl.isOpen[vb], "no vBucket stream is left open at the server after Close()")
	}
}
