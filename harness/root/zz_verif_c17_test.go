package dcp

// C17 (placeholders) — ${VAR} placeholders in a config file are replaced, at every
// occurrence, by the environment variable's value when it is set.
// The real newDcpConfig runs over modelled file system, YAML decoder (the decoded
// string option is the file text itself) and regular-expression search (the
// documented meaning of `\${([^}]+)}`: leftmost, non-overlapping matches).

import (
	"regexp"

	"github.com/Trendyol/go-dcp/config"
)

var vFileText string
var vEnvVars map[string]string

func stub__os_ReadFile(name string) ([]byte, error) { return []byte(vFileText), nil }

func stub__os_LookupEnv(key string) (string, bool) {
	v, ok := vEnvVars[key]
	return v, ok
}

func stub__yaml_Unmarshal(in []byte, out interface{}) error {
	out.(*config.Dcp).BucketName = string(in)
	return nil
}

func stub__regexp_MustCompile(str string) *regexp.Regexp { return nil }

// leftmost non-overlapping matches of \${([^}]+)}
func stub__regexp_Regexp_FindAllStringSubmatch(re *regexp.Regexp, s string, n int) [][]string {
	var out [][]string
	i := 0
	for i < len(s) {
		if s[i] == '$' && i+1 < len(s) && s[i+1] == '{' {
			j := i + 2
			for j < len(s) && s[j] != '}' {
				j++
			}
			if j < len(s) && j > i+2 {
				out = append(out, []string{s[i : j+1], s[i+2 : j]})
				i = j + 1
				continue
			}
		}
		i++
	}
	return out
}

// independent specification: one left-to-right pass over the ORIGINAL text
func vExpand(s string, env map[string]string) string {
	out := ""
	i := 0
	for i < len(s) {
		if s[i] == '$' && i+1 < len(s) && s[i+1] == '{' {
			j := i + 2
			for j < len(s) && s[j] != '}' {
				j++
			}
			if j < len(s) && j > i+2 {
				if v, ok := env[s[i+2:j]]; ok {
					out += v
				} else {
					out += s[i : j+1]
				}
				i = j + 1
				continue
			}
		}
		out += s[i : i+1]
		i++
	}
	return out
}

func H_C17_placeholders() {
	setMerge(true)
	layouts := []string{"a${V}b", "${V}${V}", "${V}x${W}", "${U}", "plain", "${V", "$V}", "x${W}${V}${W}"}
	vFileText = layouts[choose("layout", len(layouts))]
	vEnvVars = map[string]string{}
	// values are arbitrary bytes that cannot themselves form a placeholder
	for _, name := range []string{"V", "W"} {
		if nondetBool("set." + name) {
			val := nondetStr("val."+name, concretize(nondetInt("len."+name), 0, 2))
			for i := 0; i < len(val); i++ {
				assume(val[i] != '$' && val[i] != '{' && val[i] != '}')
			}
			vEnvVars[name] = val
		}
	}
	c, err := newDcpConfig("config.yml")
	assert(err == nil, "config file accepted")
	assert(c.BucketName == vExpand(vFileText, vEnvVars), "every ${VAR} occurrence is replaced by the variable's value when it is set, and left alone otherwise")
	cover("placeholders")
}
