package dcp

// C18 at its call sites: the real newDcp decides which protocol features are
// requested from the version the server reports. The two constructors that
// need a live cluster are cut at the interface they return
// (stub__mod_couchbase_NewClient / NewHTTPClient); everything else is newDcp.

import (
	"bytes"

	"github.com/Trendyol/go-dcp/config"
	"github.com/Trendyol/go-dcp/couchbase"
	"github.com/asaskevich/EventBus"
)

type vGateClient struct {
	couchbase.Client
	connects      int
	dcpConnects   int
	expiryOpcode  bool
	changeStreams bool
}

func (c *vGateClient) Connect() error { c.connects++; return nil }
func (c *vGateClient) DcpConnect(useExpiryOpcode bool, useChangeStreams bool) error {
	c.dcpConnects++
	c.expiryOpcode, c.changeStreams = useExpiryOpcode, useChangeStreams
	return nil
}

type vGateHTTP struct {
	ver  *couchbase.Version
	info *couchbase.BucketInfo
}

func (h *vGateHTTP) Connect() error                                { return nil }
func (h *vGateHTTP) GetVersion() (*couchbase.Version, error)       { return h.ver, nil }
func (h *vGateHTTP) GetBucketInfo() (*couchbase.BucketInfo, error) { return h.info, nil }

var vGateCl *vGateClient
var vGateH *vGateHTTP

func stub__mod_couchbase_NewClient(cfg *config.Dcp) couchbase.Client { return vGateCl }
func stub__mod_couchbase_NewHTTPClient(cfg *config.Dcp, cl couchbase.Client) couchbase.HTTPClient {
	return vGateH
}
func stub__sonic_Marshal(v interface{}) ([]byte, error)    { return []byte("{}"), nil }
func stub__json_Compact(dst *bytes.Buffer, src []byte) error { return nil }
func stub__EventBus_New() EventBus.Bus                      { return &vBus{} }
func stub__os_Getenv(key string) string                     { return "" }
func stub__os_Hostname() (string, error)                    { return "host-0", nil }

// vAtLeast: (M,m,p,b) >= (gM,gm,gp,0) in lexicographic order - the specification of "from version G on".
func vAtLeast(v *couchbase.Version, gM, gm, gp int) bool {
	if v.Major != gM {
		return v.Major > gM
	}
	if v.Minor != gm {
		return v.Minor > gm
	}
	if v.Patch != gp {
		return v.Patch > gp
	}
	return v.Build >= 0
}

// H_C18_newdcp: for every reported version (four arbitrary non-negative ints)
// and storage backend, newDcp requests the expiry opcode exactly from 6.5.0 on
// and change streams exactly for magma buckets from 7.2.0 on, and records the
// version it was told.
func H_C18_newdcp() {
	setMerge(true)
	ver := &couchbase.Version{Major: nondetInt("major"), Minor: nondetInt("minor"), Patch: nondetInt("patch"), Build: nondetInt("build")}
	assume(ver.Major >= 0 && ver.Minor >= 0 && ver.Patch >= 0 && ver.Build >= 0)
	backend := []string{"magma", "couchstore", ""}[choose("backend", 3)]
	vGateCl = &vGateClient{}
	vGateH = &vGateHTTP{ver: ver, info: &couchbase.BucketInfo{BucketType: "membase", StorageBackend: backend}}
	cfg := &config.Dcp{}
	cfg.Dcp.Group.Name = "g"
	d, err := newDcp(cfg, &vConsumer{})
	assert(err == nil && d != nil, "newDcp succeeds against a reachable cluster")
	assert(vGateCl.connects == 1 && vGateCl.dcpConnects == 1, "one connection, one DCP connection")
	want650 := vAtLeast(ver, 6, 5, 0)
	want720 := vAtLeast(ver, 7, 2, 0)
	if want650 {
		cover("expiry-opcode-on")
	} else {
		cover("expiry-opcode-off")
	}
	assert(vGateCl.expiryOpcode == want650, "the expiry opcode is requested exactly from server 6.5.0 on")
	if backend == "magma" && want720 {
		cover("change-streams-on")
	}
	assert(vGateCl.changeStreams == (backend == "magma" && want720), "change streams are requested exactly for magma buckets from server 7.2.0 on")
	if vGateCl.changeStreams {
		assert(vGateCl.expiryOpcode, "gating is monotone: a server with change streams also has the expiry opcode")
	}
	assert(d.GetVersion() == ver, "the client remembers the version the server reported")
}
