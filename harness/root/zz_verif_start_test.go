package dcp

// The real dcp.Start(): C15's type switches and start-up guards at their call
// sites, and C13's shutdown reached the way a process reaches it (stop channel
// or SIGTERM) - Start() itself runs close() and returns.

import (
	"errors"
	"os"
	"syscall"
	"time"

	"github.com/Trendyol/go-dcp/config"
	"github.com/Trendyol/go-dcp/couchbase"
	"github.com/Trendyol/go-dcp/models"
	"github.com/prometheus/client_golang/prometheus"
)

var vCollErr error
var vCollCalls int

func (c *vClient) GetNumVBuckets() int { return vNV }
func (c *vClient) GetCollectionIDs(scope string, names []string) (map[uint32]string, error) {
	vCollCalls++
	if vCollErr != nil {
		return nil, vCollErr
	}
	return map[uint32]string{}, nil
}

func stub__signal_Notify(c chan<- os.Signal, sig ...os.Signal) {}

func vStartWorld() *vWorld {
	w := &vWorld{cl: &vClient{observers: map[uint16]couchbase.Observer{}}, st: &vStore{docs: map[uint16]*models.CheckpointDocument{}},
		co: &vConsumer{}, cfg: &config.Dcp{}}
	cfg := w.cfg
	cfg.RollbackMitigation.Disabled = true
	cfg.API.Disabled = true
	cfg.HealthCheck.Disabled = true
	cfg.Checkpoint.Type = "auto"
	cfg.Checkpoint.Interval = 7 * time.Second
	cfg.Dcp.Group.Membership.Type = "static"
	cfg.Dcp.Group.Membership.MemberNumber = 1
	cfg.Dcp.Group.Membership.TotalMembers = 2
	cfg.Metadata.Type = "couchbase"
	vCollErr, vCollCalls = nil, 0
	w.d = &dcp{
		client: w.cl, consumer: w.co, config: cfg, version: &couchbase.Version{Major: 7}, bucketInfo: &couchbase.BucketInfo{},
		apiShutdown: make(chan struct{}, 1), cancelCh: make(chan os.Signal, 1), stopCh: make(chan struct{}, 1), readyCh: make(chan struct{}, 1),
		metricCollectors: []prometheus.Collector{}, eventHandler: models.DefaultEventHandler, bus: &vBus{},
	}
	return w
}

// H_C15_start: the head of the real Start(). An unknown metadata type (0..3
// arbitrary bytes, no custom store set), an unknown membership type, or a
// failing collection-id query terminate the client before a single stream is
// requested; with valid settings Start() opens exactly the member's vBuckets
// and signals readiness.
func H_C15_start() {
	setMerge(true)
	setPreempt(0)
	w := vStartWorld()
	fault := choose("fault", 4)
	switch fault {
	case 0: // unknown metadata type and no custom store
		n := choose("len", 4)
		t := nondetStr("metadata-type", n)
		assume(t != "couchbase" && t != "file")
		w.cfg.Metadata.Type = t
	case 1: // unknown membership type
		w.d.SetMetadata(w.st)
		n := choose("len", 4)
		t := nondetStr("membership-type", n)
		w.cfg.Dcp.Group.Membership.Type = t
	case 2: // collection ids cannot be resolved
		w.d.SetMetadata(w.st)
		vCollErr = errors.New("scope not found")
	default:
		w.d.SetMetadata(w.st)
	}
	if fault < 3 {
		returned, p := false, false
		spawnEnv(func() {
			p, _ = expectPanic(func() { w.d.Start() })
			returned = true
		})
		setHorizon(nowNs() + int64(5*time.Second))
		quiesce()
		assert(returned && p, "start-up with an invalid setting or a failing query terminates the client")
		assert(len(w.cl.opens) == 0, "no stream is requested on an inconsistent basis")
		assert(len(w.co.events) == 0, "nothing is delivered")
		if fault == 0 {
			assert(vCollCalls == 0, "an unknown metadata type is refused before any server call")
		}
		cover("refused")
		return
	}
	started := false
	spawnEnv(func() {
		w.d.Start()
		started = true
	})
	<-w.d.WaitUntilReady()
	cover("ready")
	assert(len(w.cl.opens) == 2, "the member's two vBuckets are requested")
	for _, vb := range w.cl.opens {
		assert(vb == 0 || vb == 1, "member 1 of 2 streams the first half of the vBuckets")
	}
	// the process is told to stop: SIGTERM or an internal stop
	w.deliver(0, 5)
	if len(w.co.events) == 1 {
		w.co.events[0].Ack()
	}
	if choose("socket-drops-during-shutdown", 2) == 1 {
		// a node goes away while the client shuts down: vBucket 1's stream ends with "socket closed"
		w.cl.dropOnClose[1] = true
		cover("socket-drop-during-shutdown")
	}
	if choose("how", 2) == 0 {
		w.d.cancelCh <- syscall.SIGTERM
		cover("sigterm")
	} else {
		w.d.Close()
		cover("close-call")
	}
	setHorizon(nowNs() + int64(time.Minute))
	quiesce()
	assert(started, "Start() returns once the client is stopped")
	doc, ok := w.st.docs[0]
	assert(ok && doc.Checkpoint.SeqNo == 5, "automatic checkpointing leaves the acknowledged position durable")
	assert(len(w.cl.closes) == 2 && w.cl.dcpClosed == 1 && w.cl.closed == 1, "streams and connections closed")
	assert(len(w.cl.opens) == 2, "no vBucket stream is re-opened once the shutdown has begun")
	for vb := 0; vb < vNV; vb++ {
		assert(!w.cl.isOpen[vb], "no vBucket stream is left open")
	}
	saves := w.st.saves
	w.cl.shutdown, w.st.shutdown, w.co.shutdown = true, true, true
	setHorizon(nowNs() + int64(2*time.Minute))
	quiesce()
	assert(w.st.saves-saves <= 1 && w.co.afterClose == 0 && w.cl.opensAfter == 0, "nothing keeps running after the stop")
}
