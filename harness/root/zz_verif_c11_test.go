package dcp

// C11 at the dcp level: membership notifications arrive through the dcp's own
// bus subscriber (membershipChangedListener), the path every membership type
// uses; the stream-level harnesses call stream.Rebalance() directly.

import (
	"time"
)

// H_C11_dcp: a burst of 2..3 notifications through the real subscriber, each
// within the rebalance delay (10 s) of the previous one, the membership
// changing with the last one. The stream is reopened exactly once, one full
// delay after the LAST notification of the burst, on the vBuckets of the
// latest assignment, and the client is not stopped.
func H_C11_dcp() {
	setMerge(true)
	setPreempt(0)
	w := vNewWorld(false, false)
	opens0 := len(w.cl.opens)
	assert(opens0 == 2, "first session: two vBuckets")
	n := 2 + choose("burst", 2)
	gaps := []time.Duration{0, 4 * time.Second, 9900 * time.Millisecond}
	var tLast int64
	for i := 0; i < n; i++ {
		if i > 0 {
			time.Sleep(gaps[choose("gap", len(gaps))])
		}
		if i == n-1 {
			w.disc.member = 2 // the assignment this member must end up with
		}
		tLast = nowNs()
		w.d.membershipChangedListener(nil)
	}
	cover("burst-delivered")
	setHorizon(nowNs() + int64(time.Minute))
	quiesce()
	delay := int64(w.cfg.Dcp.Group.Membership.RebalanceDelay)
	assert(len(w.cl.opens) == opens0+2, "the stream is reopened exactly once after the burst")
	for i := opens0; i < len(w.cl.opens); i++ {
		assert(w.cl.openAt[i] >= tLast+delay, "the reopen waits the configured delay after the last notification of the burst")
		assert(w.cl.openAt[i] == tLast+delay, "the reopen happens once that delay has elapsed")
		assert(w.cl.opens[i] == 2 || w.cl.opens[i] == 3, "the reopened session streams the vBuckets of the latest assignment")
	}
	assert(w.d.stream.IsOpen(), "the stream is open again")
	select {
	case <-w.d.stopCh:
		assert(false, "a rebalance does not stop the client")
	default:
	}
	cover("reopened-once")
}
