package helpers

// C09 — vBucket partition across group members is exact (ChunkSlice).

func init() {
	vHarnesses["C09_chunk"] = H_C09_chunk
}

// symSliceU16 returns a slice of symbolic length n whose elements are never
// read (the engine keeps offset/len/cap as terms; natively a real slice).
func symSliceU16(n int) []uint16 { return make([]uint16, n) }

func vC09Tmax() int {
	if tierThorough() {
		return 48
	}
	return 20
}

// H_C09_chunk: T concretized in 1..Tmax (loop bound), N symbolic in T..1024.
// Chunk i occupies [start_i, start_i+len_i) with start_i = cap(in)-cap(out[i]).
func H_C09_chunk() {
	setUnwind(1100)
	T := concretize(nondetInt("T"), 1, vC09Tmax())
	N := nondetInt("N")
	assume(N >= T)
	assume(N <= 1024)
	in := symSliceU16(N)
	out := ChunkSlice[uint16](in, T)
	assert(len(out) == T, "chunk-count")
	setMerge(true) // harness-side || and && become single terms (ChunkSlice itself ran unmerged)
	pos := 0
	first := len(out[0])
	prev := first
	for i := 0; i < T; i++ {
		start := cap(in) - cap(out[i])
		ln := len(out[i])
		assert(ln >= 1, "non-empty")
		assert(start == pos, "contiguous-ascending")
		assert(ln == first || ln == first-1, "sizes-differ-by-at-most-one")
		assert(ln <= prev, "larger-chunks-first")
		prev = ln
		pos = start + ln
	}
	assert(pos == N, "exact-cover")
	if first*T == N {
		cover("even-split")
	} else {
		cover("uneven-split")
	}
	// purity: same arguments, same partition
	again := ChunkSlice[uint16](in, T)
	for i := 0; i < T; i++ {
		assert(cap(again[i]) == cap(out[i]), "pure-start")
		assert(len(again[i]) == len(out[i]), "pure-len")
	}
}
