package helpers

// Engine self-check of Go language semantics the go-dcp code relies on. Inputs
// are symbolic in the engine; the same file also runs natively (vcheck selftest)
// with concrete values, so interpreter and compiled code are compared.

import "errors"

func init() {
	vHarnesses["SELFLANG_ints"] = H_SELFLANG_ints
	vHarnesses["SELFLANG_data"] = H_SELFLANG_data
	vHarnesses["SELFLANG_flow"] = H_SELFLANG_flow
}

func H_SELFLANG_ints() {
	setMerge(true)
	x := nondetU64("x")
	y := nondetU64("y")
	assert(x+y-y == x, "uint64 wrap-around add/sub")
	assert((x+1 == 0) == (x == ^uint64(0)), "uint64 overflow to zero")
	a := uint8(x)
	assert(uint64(a) == x&0xff, "truncating conversion")
	s := int8(a)
	assert((s < 0) == (a >= 128) && int64(s) == int64(int8(uint8(x))), "sign reinterpretation")
	assert(int64(int32(uint32(x))) == int64(int32(x)), "narrowing then sign extension")
	// division identities on 8-bit operands (64-bit symbolic multiplication/division is beyond the solvers here)
	p8, q8 := uint8(x>>8), uint8(y)
	if q8 != 0 {
		assert(p8/q8*q8+p8%q8 == p8, "unsigned division identity")
		sp, sq := int8(p8), int8(q8)
		if !(sp == -128 && sq == -1) {
			assert(sp/sq*sq+sp%sq == sp, "signed division identity (truncation toward zero)")
			if sp < 0 && sp%sq != 0 {
				assert(sp%sq < 0, "remainder takes the sign of the dividend")
			}
		}
	}
	sh := uint(y % 80)
	if sh >= 64 {
		assert(x<<sh == 0 && x>>sh == 0 && int64(x)>>sh == (int64(x)>>63), "over-wide shifts")
	} else {
		assert((x<<sh)>>sh == x&(^uint64(0)>>sh), "shift round trip")
	}
	assert(x&^y == x&(^y) && x^x == 0 && x|0 == x, "bit operations")
	var u16 uint16 = uint16(x)
	assert(int(u16) >= 0 && int(u16) <= 65535, "uint16 to int is non-negative")
	f := float64(uint32(x))
	assert(uint32(f) == uint32(x), "uint32 <-> float64 is exact")
	cover("ints")
}

type vPoint struct{ X, Y int }
type vShape interface{ Area() int }
type vRect struct {
	vPoint
	W, H int
}

func (r vRect) Area() int   { return r.W * r.H }
func (r *vRect) Grow(d int) { r.W += d }

func H_SELFLANG_data() {
	n := nondetInt("n")
	assume(n >= 0 && n < 1000)
	// arrays are values, slices alias
	arr := [3]int{1, 2, n}
	cp := arr
	cp[2]++
	sl := arr[:]
	sl[0] = 7
	assert(arr[2] == n && cp[2] == n+1 && arr[0] == 7, "arrays copy, slices alias")
	// append within capacity aliases, beyond capacity copies
	base := make([]int, 2, 3)
	a1 := append(base, n)
	a2 := append(base, n+1)
	assert(a1[2] == n+1 && a2[2] == n+1, "append within capacity shares the backing array")
	a3 := append(a1, 5)
	a3[0] = 99
	assert(a1[0] == 0 && len(a3) == 4, "append beyond capacity copies")
	// structs are values; embedded fields are promoted; pointer methods mutate
	r := vRect{vPoint{1, 2}, n, 2}
	r2 := r
	r2.Grow(3)
	assert(r.W == n && r2.W == n+3 && r2.X == 1, "struct copy and promoted field")
	var sh vShape = r2
	assert(sh.Area() == (n+3)*2, "interface dispatch on a value receiver")
	if rr, ok := sh.(vRect); ok {
		assert(rr.W == n+3, "type assertion yields a copy")
	} else {
		assert(false, "type assertion")
	}
	// maps: missing key gives zero, delete, comma-ok
	m := map[int]*vPoint{n: {X: n}}
	_, ok := m[n+1]
	assert(!ok && m[n].X == n && len(m) == 1, "map lookup")
	m[n].X++
	assert(m[n].X == n+1, "map of pointers aliases")
	// closures capture variables; the module declares go 1.21, so a for-loop variable is shared by all iterations
	var fs []func() int
	for i := 0; i < 3; i++ {
		fs = append(fs, func() int { return i + n })
	}
	assert(fs[0]() == n+3 && fs[2]() == n+3, "loop variable shared across iterations (go 1.21 semantics of this module)")
	var gs []func() int
	for i := 0; i < 3; i++ {
		i := i
		gs = append(gs, func() int { return i + n })
	}
	assert(gs[0]() == n && gs[2]() == n+2, "explicit per-iteration copy")
	acc := 0
	add := func(d int) { acc += d }
	add(n)
	add(1)
	assert(acc == n+1, "closure mutates captured variable")
	// strings
	s := "héllo"
	assert(len(s) == 6 && s[1] == 0xc3 && s[2:] == "llo"[0:0]+s[2:], "strings are bytes")
	b := []byte("abc")
	b[0] = 'x'
	assert(string(b) == "xbc", "byte slice conversion copies")
	cover("data")
}

var vErrSentinel = errors.New("sentinel")

func vNamed(n int) (res int, err error) {
	defer func() {
		if r := recover(); r != nil {
			res, err = -1, vErrSentinel
		}
	}()
	defer func() { res *= 2 }()
	if n == 3 {
		panic("boom")
	}
	return n + 1, nil
}

func vVariadic(xs ...int) int {
	t := 0
	for _, x := range xs {
		t += x
	}
	return t
}

func H_SELFLANG_flow() {
	n := nondetInt("n")
	assume(n >= 0 && n < 10)
	r, err := vNamed(n)
	if n == 3 {
		assert(r == -1 && err == vErrSentinel, "recover rewrites named results; earlier defer ran on the panicking path first")
	} else {
		assert(r == (n+1)*2 && err == nil, "deferred function modifies the named result after return")
	}
	// switch without fallthrough, with fallthrough, labeled loops
	k := 0
	switch {
	case n < 3:
		k = 1
		fallthrough
	case n < 6:
		k += 10
	default:
		k = 100
	}
	want := 100
	if n < 3 {
		want = 11
	} else if n < 6 {
		want = 10
	}
	assert(k == want, "switch with fallthrough")
	cnt := 0
outer:
	for i := 0; i < 4; i++ {
		for j := 0; j < 4; j++ {
			if j == 2 {
				continue outer
			}
			if i == 3 {
				break outer
			}
			cnt++
		}
	}
	assert(cnt == 6, "labeled continue/break")
	assert(vVariadic() == 0 && vVariadic(1, 2, n) == 3+n && vVariadic([]int{n, n}...) == 2*n, "variadic calls")
	// defers run LIFO, arguments evaluated at defer time
	order := []int{}
	func() {
		for i := 0; i < 3; i++ {
			defer func(v int) { order = append(order, v) }(i)
		}
	}()
	assert(len(order) == 3 && order[0] == 2 && order[2] == 0, "defer order")
	// panic value through recover, runtime errors are errors
	p, v := expectPanic(func() {
		var mp map[string]int
		mp["x"] = 1
	})
	_, isErr := v.(error)
	assert(p && isErr, "nil-map write is a run-time error")
	p, _ = expectPanic(func() {
		var sl []int
		_ = sl[n]
	})
	assert(p, "index out of range panics")
	var ip *vPoint
	p, _ = expectPanic(func() { _ = ip.X })
	assert(p, "nil dereference panics")
	ch := make(chan int, 1)
	close(ch)
	_, okc := <-ch
	p, _ = expectPanic(func() { ch <- 1 })
	assert(!okc && p, "closed channel semantics")
	cover("flow")
}
