package helpers

// Engine self-check of the stdlib models (strings.Builder, bytes.Buffer, sync.Map, atomics,
// sort, strings, errors, time on the virtual clock, strconv/fmt, sync/chan/timers, builtins):
// the expected values are facts of the Go specification and library documentation.

import (
	"bytes"
	"context"
	"errors"
	"fmt"
	"sort"
	"strconv"
	"strings"
	"sync"
	"sync/atomic"
	"time"
)

type vProbeErr struct{ code int }

func (e *vProbeErr) Error() string { return "probe" }

func H_SELFLIB_a() {
	var sb strings.Builder
	sb.WriteString("ab")
	sb.WriteByte('c')
	assert(sb.String() == "abc" && sb.Len() == 3, "strings.Builder")
}
func H_SELFLIB_b() {
	var bb bytes.Buffer
	bb.WriteString("xy")
	bb.Write([]byte("z"))
	assert(bb.String() == "xyz" && bb.Len() == 3, "bytes.Buffer")
}
func H_SELFLIB_c() {
	var m sync.Map
	m.Store("k", 1)
	v, ok := m.Load("k")
	assert(ok && v.(int) == 1, "sync.Map")
	_, ok = m.Load("z")
	assert(!ok, "sync.Map miss")
}
func H_SELFLIB_d() {
	var b atomic.Bool
	b.Store(true)
	var i atomic.Int64
	i.Add(5)
	var p atomic.Pointer[vProbeErr]
	p.Store(&vProbeErr{7})
	assert(b.Load() && i.Load() == 5 && p.Load().code == 7, "atomic types")
}
func H_SELFLIB_e() {
	s := []int{3, 1, 2}
	sort.Ints(s)
	assert(s[0] == 1 && s[2] == 3, "sort.Ints")
	t := strings.Fields(" a  b ")
	assert(len(t) == 2 && t[1] == "b", "strings.Fields")
	assert(strings.TrimPrefix("abc", "a") == "bc" && strings.TrimSuffix("abc", "c") == "ab" && strings.ToLower("AbC") == "abc" && strings.EqualFold("Ab", "aB"), "strings misc")
	assert(strings.Repeat("ab", 2) == "abab" && strings.Count("aXbXc", "X") == 2 && strings.IndexByte("abc", 'c') == 2, "strings misc 2")
}
func H_SELFLIB_f() {
	e := fmt.Errorf("wrap: %w", &vProbeErr{3})
	var pe *vProbeErr
	assert(errors.As(e, &pe) && pe.code == 3, "errors.As through fmt.Errorf")
	j := errors.Join(errors.New("a"), e)
	assert(errors.As(j, &pe), "errors.Join")
	assert(errors.Unwrap(e) != nil, "errors.Unwrap")
}
func H_SELFLIB_g() {
	d, err := time.ParseDuration("1m30s")
	assert(err == nil && d == 90*time.Second, "ParseDuration")
	t0 := time.Now()
	time.Sleep(2 * time.Second)
	assert(time.Since(t0) == 2*time.Second && time.Until(t0) == -2*time.Second && time.Now().Sub(t0) == 2*time.Second && time.Now().After(t0), "time arithmetic")
	assert(t0.Add(time.Hour).Unix()-t0.Unix() == 3600 && t0.UnixMilli() > 0, "time.Add/Unix")
}
func H_SELFLIB_h() {
	n, err := strconv.ParseUint("42", 10, 32)
	b, err2 := strconv.ParseBool("true")
	f := strconv.FormatInt(-12, 10)
	q := strconv.Quote("a")
	assert(err == nil && n == 42 && err2 == nil && b && f == "-12" && q == "\"a\"", "strconv misc")
	assert(fmt.Sprintf("%s-%d-%v", "a", 5, uint16(7)) == "a-5-7" && fmt.Sprint("x", 1) != "", "fmt.Sprintf")
}
func H_SELFLIB_i() {
	var mu sync.RWMutex
	var once sync.Once
	cnt := 0
	mu.RLock()
	mu.RUnlock()
	once.Do(func() { cnt++ })
	once.Do(func() { cnt++ })
	c := sync.NewCond(&sync.Mutex{})
	_ = c
	ch := make(chan int, 2)
	ch <- 1
	ch <- 2
	close(ch)
	sum := 0
	for v := range ch {
		sum += v
	}
	tk := time.NewTimer(time.Second)
	select {
	case <-tk.C:
		sum += 10
	case <-time.After(5 * time.Second):
		sum += 100
	}
	assert(cnt == 1 && sum == 13, "sync/chan/timer misc")
}
func H_SELFLIB_j() {
	m := map[string][]int{}
	m["a"] = append(m["a"], 1)
	m["a"] = append(m["a"], 2)
	delete(m, "zz")
	k := 0
	for range m {
		k++
	}
	arr := [3]int{1, 2, 3}
	sl := arr[1:]
	copy(sl, []int{9})
	mn := min(3, 1, 2)
	mx := max(3, 1)
	clear(m)
	assert(k == 1 && arr[1] == 9 && mn == 1 && mx == 3 && len(m) == 0, "builtins")
}

// H_SELFLIB_k: context deadlines. A context without a deadline reports the zero
// time (a wrapper that copies it into an operation's Deadline option leaves the
// operation without a timeout - seed C20-c); WithTimeout reports now+d and
// expires exactly then; cancellation wins over a later deadline.
func H_SELFLIB_k() {
	d, ok := context.Background().Deadline()
	assert(!ok && d.IsZero(), "no deadline: zero time")
	t0 := time.Now()
	ctx, cancel := context.WithTimeout(context.Background(), 3*time.Second)
	d2, ok2 := ctx.Deadline()
	assert(ok2 && !d2.IsZero() && d2.Sub(t0) == 3*time.Second, "WithTimeout: deadline is now+d")
	assert(ctx.Err() == nil, "not expired yet")
	child, cancel2 := context.WithCancel(ctx)
	d3, ok3 := child.Deadline()
	assert(ok3 && d3.Equal(d2), "a child inherits the parent's deadline")
	select {
	case <-ctx.Done():
		assert(false, "not done before the deadline")
	case <-time.After(2 * time.Second):
	}
	<-ctx.Done()
	assert(time.Since(t0) == 3*time.Second && errors.Is(ctx.Err(), context.DeadlineExceeded), "expires exactly at the deadline")
	assert(errors.Is(child.Err(), context.DeadlineExceeded), "and takes its children with it")
	cancel2()
	cancel()
	c3, cancel3 := context.WithTimeout(context.Background(), time.Hour)
	cancel3()
	assert(errors.Is(c3.Err(), context.Canceled), "cancellation wins over a later deadline")
}
