package helpers

// Engine self-check of the stdlib models (strings.Builder, bytes.Buffer, sync.Map, atomics,
// sort, strings, errors, time on the virtual clock, strconv/fmt, sync/chan/timers, builtins):
// the expected values are facts of the Go specification and library documentation.

import (
	"bytes"
	"errors"
	"fmt"
	"sort"
	"strconv"
	"strings"
	"sync"
	"sync/atomic"
	"time"
)

type vProbeErr struct{ code int }

func (e *vProbeErr) Error() string { return "probe" }

func H_SELFLIB_a() {
	var sb strings.Builder
	sb.WriteString("ab")
	sb.WriteByte('c')
	assert(sb.String() == "abc" && sb.Len() == 3, "strings.Builder")
}
func H_SELFLIB_b() {
	var bb bytes.Buffer
	bb.WriteString("xy")
	bb.Write([]byte("z"))
	assert(bb.String() == "xyz" && bb.Len() == 3, "bytes.Buffer")
}
func H_SELFLIB_c() {
	var m sync.Map
	m.Store("k", 1)
	v, ok := m.Load("k")
	assert(ok && v.(int) == 1, "sync.Map")
	_, ok = m.Load("z")
	assert(!ok, "sync.Map miss")
}
func H_SELFLIB_d() {
	var b atomic.Bool
	b.Store(true)
	var i atomic.Int64
	i.Add(5)
	var p atomic.Pointer[vProbeErr]
	p.Store(&vProbeErr{7})
	assert(b.Load() && i.Load() == 5 && p.Load().code == 7, "atomic types")
}
func H_SELFLIB_e() {
	s := []int{3, 1, 2}
	sort.Ints(s)
	assert(s[0] == 1 && s[2] == 3, "sort.Ints")
	t := strings.Fields(" a  b ")
	assert(len(t) == 2 && t[1] == "b", "strings.Fields")
	assert(strings.TrimPrefix("abc", "a") == "bc" && strings.TrimSuffix("abc", "c") == "ab" && strings.ToLower("AbC") == "abc" && strings.EqualFold("Ab", "aB"), "strings misc")
	assert(strings.Repeat("ab", 2) == "abab" && strings.Count("aXbXc", "X") == 2 && strings.IndexByte("abc", 'c') == 2, "strings misc 2")
}
func H_SELFLIB_f() {
	e := fmt.Errorf("wrap: %w", &vProbeErr{3})
	var pe *vProbeErr
	assert(errors.As(e, &pe) && pe.code == 3, "errors.As through fmt.Errorf")
	j := errors.Join(errors.New("a"), e)
	assert(errors.As(j, &pe), "errors.Join")
	assert(errors.Unwrap(e) != nil, "errors.Unwrap")
}
func H_SELFLIB_g() {
	d, err := time.ParseDuration("1m30s")
	assert(err == nil && d == 90*time.Second, "ParseDuration")
	t0 := time.Now()
	time.Sleep(2 * time.Second)
	assert(time.Since(t0) == 2*time.Second && time.Until(t0) == -2*time.Second && time.Now().Sub(t0) == 2*time.Second && time.Now().After(t0), "time arithmetic")
	assert(t0.Add(time.Hour).Unix()-t0.Unix() == 3600 && t0.UnixMilli() > 0, "time.Add/Unix")
}
func H_SELFLIB_h() {
	n, err := strconv.ParseUint("42", 10, 32)
	b, err2 := strconv.ParseBool("true")
	f := strconv.FormatInt(-12, 10)
	q := strconv.Quote("a")
	assert(err == nil && n == 42 && err2 == nil && b && f == "-12" && q == "\"a\"", "strconv misc")
	assert(fmt.Sprintf("%s-%d-%v", "a", 5, uint16(7)) == "a-5-7" && fmt.Sprint("x", 1) != "", "fmt.Sprintf")
}
func H_SELFLIB_i() {
	var mu sync.RWMutex
	var once sync.Once
	cnt := 0
	mu.RLock()
	mu.RUnlock()
	once.Do(func() { cnt++ })
	once.Do(func() { cnt++ })
	c := sync.NewCond(&sync.Mutex{})
	_ = c
	ch := make(chan int, 2)
	ch <- 1
	ch <- 2
	close(ch)
	sum := 0
	for v := range ch {
		sum += v
	}
	tk := time.NewTimer(time.Second)
	select {
	case <-tk.C:
		sum += 10
	case <-time.After(5 * time.Second):
		sum += 100
	}
	assert(cnt == 1 && sum == 13, "sync/chan/timer misc")
}
func H_SELFLIB_j() {
	m := map[string][]int{}
	m["a"] = append(m["a"], 1)
	m["a"] = append(m["a"], 2)
	delete(m, "zz")
	k := 0
	for range m {
		k++
	}
	arr := [3]int{1, 2, 3}
	sl := arr[1:]
	copy(sl, []int{9})
	mn := min(3, 1, 2)
	mx := max(3, 1)
	clear(m)
	assert(k == 1 && arr[1] == 9 && mn == 1 && mx == 3 && len(m) == 0, "builtins")
}
