package helpers

// C14 (key classification) — events under the reserved prefixes are recognised
// for every key, in every document event type.

import (
	"github.com/Trendyol/go-dcp/models"
	"github.com/couchbase/gocbcore/v10"
)

func init() {
	vHarnesses["C14_ismeta"] = H_C14_ismeta
}

// independent byte-wise specification
func vHasPrefix(key []byte, p string) bool {
	if len(key) < len(p) {
		return false
	}
	ok := true
	for i := 0; i < len(p); i++ {
		if key[i] != p[i] {
			ok = false
		}
	}
	return ok
}

type vNoKey struct{ Name string }

// H_C14_ismeta: key length 0..17 (one more than the longer prefix), all bytes
// arbitrary, inside each of the three document event structs.
func H_C14_ismeta() {
	setMerge(true)
	L := concretize(nondetInt("len"), 0, 17)
	key := nondetBytes("key", L)
	spec := vHasPrefix(key, "_connector:cbgo:") || vHasPrefix(key, "_txn:")
	var ev interface{}
	switch choose("kind", 4) {
	case 0:
		ev = models.DcpMutation{DcpMutation: &gocbcore.DcpMutation{Key: key}}
	case 1:
		ev = models.DcpDeletion{DcpDeletion: &gocbcore.DcpDeletion{Key: key}}
	case 2:
		ev = models.DcpExpiration{DcpExpiration: &gocbcore.DcpExpiration{Key: key}}
	default:
		assert(!IsMetadata(vNoKey{"x"}), "a value without Key is not metadata")
		assert(!IsMetadata(models.DcpSeqNoAdvanced{DcpSeqNoAdvanced: &gocbcore.DcpSeqNoAdvanced{}}), "seqno-advanced has no key")
		cover("nokey")
		return
	}
	got := IsMetadata(ev)
	assert(got == spec, "IsMetadata <=> key has a reserved prefix")
	if spec {
		cover("reserved")
	} else {
		cover("ordinary")
	}
	// the constants the rest of the library builds its own keys from
	assert(Prefix == "_connector:cbgo:" && TxnPrefix == "_txn:", "reserved prefixes are the documented ones")
}
