package helpers

// Translator self-check: the inputs of the repository's own unit tests (and a
// seeded sample of further concrete inputs) go through the interpreted SSA of
// the real functions; the expected values are those the compiled code gives
// (the same file runs natively under `go test -overlay`, see vcheck selftest).

func init() {
	vHarnesses["SELF_helpers"] = H_SELF_helpers
}

type vSelfKey struct{ Key []byte }
type vSelfNoKey struct{ X []byte }

func H_SELF_helpers() {
	// TestIsMetadata_*
	assert(IsMetadata(vSelfKey{Key: []byte(Prefix + "test")}), "IsMetadata: connector prefix")
	assert(IsMetadata(vSelfKey{Key: []byte(TxnPrefix + "test")}), "IsMetadata: txn prefix")
	assert(!IsMetadata(vSelfKey{Key: []byte("test")}), "IsMetadata: no prefix")
	assert(!IsMetadata(vSelfNoKey{X: []byte(Prefix + "test")}), "IsMetadata: no Key field")
	// TestChunkSlice / TestChunkSliceWithSize
	in := []int{1, 2, 3, 4, 5, 6, 7, 8, 9, 10}
	c := ChunkSlice(in, 3)
	assert(len(c) == 3 && len(c[0]) == 4 && len(c[1]) == 3 && len(c[2]) == 3 && c[1][0] == 5 && c[2][2] == 10, "ChunkSlice(10,3)")
	c = ChunkSlice(in, 10)
	assert(len(c) == 10 && len(c[9]) == 1 && c[9][0] == 10, "ChunkSlice(10,10)")
	w := ChunkSliceWithSize(in, 4)
	assert(len(w) == 3 && len(w[2]) == 2 && w[2][1] == 10, "ChunkSliceWithSize(10,4)")
	// TestDcp_ResolveConnectionBufferSize / TestConvertToBytes
	assert(ResolveUnionIntOrStringValue(20971520) == 20971520, "int")
	assert(ResolveUnionIntOrStringValue(uint(10971520)) == 10971520, "uint")
	assert(ResolveUnionIntOrStringValue("15971520") == 15971520, "decimal string")
	assert(ResolveUnionIntOrStringValue("500kb") == 500*1024, "500kb")
	assert(ResolveUnionIntOrStringValue("10mb") == 10*1024*1024, "10mb")
	v, err := convertSizeUnitToByte("1.5 GB")
	assert(err == nil && v == 1610612736, "1.5 GB")
	v, err = convertSizeUnitToByte("2,5mb")
	assert(err == nil && v == 2621440, "2,5mb")
	_, err = convertSizeUnitToByte("12xb")
	assert(err != nil, "unknown unit")
	_, err = convertSizeUnitToByte("b")
	assert(err != nil, "too short")
	// a seeded sample of further concrete inputs (VERIF_SEED only picks which)
	n, t := 1+int(nondetU16("sample.n")%1024), 1
	t = 1 + int(nondetU16("sample.t"))%n
	assume(nondetU16("sample.n") == 1000 && nondetU16("sample.t") == 6) // pinned so that both worlds see the same case
	_ = t
	s := make([]uint16, 1001)
	p := ChunkSlice(s, 7)
	tot := 0
	for _, ch := range p {
		tot += len(ch)
	}
	assert(len(p) == 7 && tot == 1001 && len(p[0]) == 143 && len(p[6]) == 143, "ChunkSlice(1001,7)")
	_ = n
	cover("self")
}
