package helpers

// C17 (units) — size strings resolve to number x 1024^k, truncated.

import "errors"

func init() {
	vHarnesses["C17_plain"] = H_C17_plain
}

// The mantissa parser is outside the encoder's reach on symbolic text: it is
// replaced by "any finite value in [0, 2^40]" (or a parse error).
var vMantissa float64
var vMantissaErr bool

func stub__strconv_ParseFloat(s string, bitSize int) (float64, error) {
	if vMantissaErr {
		return 0, errors.New("strconv.ParseFloat: parsing: invalid syntax")
	}
	return vMantissa, nil
}

func vUpper(b byte) byte {
	if b >= 'a' && b <= 'z' {
		return b - 32
	}
	return b
}

// H_C17_units: the two unit bytes are arbitrary ASCII; the mantissa text is
// two arbitrary bytes (its value comes from the stub).
func H_C17_units() {
	setMerge(true)
	u := nondetStr("unit", 2)
	assume(u[0] < 0x80 && u[1] < 0x80)
	mant := nondetStr("mantissa", 2)
	// the number text: a digit followed by a digit, blank, comma or point (its value is the stub's)
	assume(mant[0] >= '0' && mant[0] <= '9')
	assume((mant[1] >= '0' && mant[1] <= '9') || mant[1] == ' ' || mant[1] == ',' || mant[1] == '.')
	vMantissa = nondetF64("size")
	assume(vMantissa >= 0 && vMantissa <= 1099511627776.0)
	vMantissaErr = nondetBool("mantissaErr")
	got, err := convertSizeUnitToByte(mant + u)
	u0, u1 := vUpper(u[0]), vUpper(u[1])
	k := -1
	if u1 == 'B' {
		switch u0 {
		case 'K':
			k = 1
		case 'M':
			k = 2
		case 'G':
			k = 3
		}
	}
	if vMantissaErr {
		cover("bad-number")
		assert(err != nil, "an unparsable number is an error")
		return
	}
	switch k {
	case 1:
		cover("kb")
		assert(err == nil && got == int(vMantissa*1024), "kb = number x 1024, truncated")
	case 2:
		cover("mb")
		assert(err == nil && got == int(vMantissa*1024*1024), "mb = number x 1024^2, truncated")
	case 3:
		cover("gb")
		assert(err == nil && got == int(vMantissa*1024*1024*1024), "gb = number x 1024^3, truncated")
	default:
		cover("unknown-unit")
		assert(err != nil, "any other unit spelling is refused")
	}
}

// H_C17_plain: decimal strings of 1..4 arbitrary digits resolve to their value;
// int and uint values to themselves.
func H_C17_plain() {
	setMerge(true)
	maxDigits := 4
	if tierThorough() {
		maxDigits = 7
	}
	n := concretize(nondetInt("ndigits"), 1, maxDigits)
	s := nondetStr("digits", n)
	want := 0
	for i := 0; i < n; i++ {
		assume(s[i] >= '0' && s[i] <= '9')
		want = want*10 + int(s[i]-'0')
	}
	assert(ResolveUnionIntOrStringValue(s) == want, "a plain decimal string resolves to itself")
	iv := nondetInt("int")
	assert(ResolveUnionIntOrStringValue(iv) == iv, "an int resolves to itself")
	uv := uint(nondetU64("uint"))
	assert(ResolveUnionIntOrStringValue(uv) == int(uv), "a uint resolves to itself")
	assert(ResolveUnionIntOrStringValue(nil) == 0 && ResolveUnionIntOrStringValue(1.5) == 0, "other types resolve to 0")
	cover("plain")
}
