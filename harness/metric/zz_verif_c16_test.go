package metric

// C16 — exposed metrics tell the truth.

import (
	"errors"

	"github.com/Trendyol/go-dcp/couchbase"
	"github.com/Trendyol/go-dcp/models"
	"github.com/Trendyol/go-dcp/stream"
	"github.com/Trendyol/go-dcp/wrapper"
	"github.com/couchbase/gocbcore/v10"
	"github.com/prometheus/client_golang/prometheus"
)

// ---- prometheus recorded, not executed ----

type vSample struct {
	prometheus.Metric
	name    string
	val     float64
	labels  []string
	invalid bool
}

var vDescNames = map[*prometheus.Desc]string{}

func stub__prometheus_BuildFQName(namespace, subsystem, name string) string {
	return namespace + "_" + subsystem + "_" + name
}

func stub__prometheus_NewDesc(fqName, help string, variableLabels []string, constLabels prometheus.Labels) *prometheus.Desc {
	d := new(prometheus.Desc)
	vDescNames[d] = fqName
	return d
}

func stub__prometheus_MustNewConstMetric(desc *prometheus.Desc, valueType prometheus.ValueType, value float64, labelValues ...string) prometheus.Metric {
	return &vSample{name: vDescNames[desc], val: value, labels: labelValues}
}

func stub__prometheus_NewInvalidMetric(desc *prometheus.Desc, err error) prometheus.Metric {
	return &vSample{name: vDescNames[desc], invalid: true}
}

// ---- fakes ----

type vObsMetric struct {
	couchbase.Observer
	m       couchbase.ObserverMetric
	persist gocbcore.SeqNo
}

func (o *vObsMetric) GetMetrics() *couchbase.ObserverMetric { return &o.m }
func (o *vObsMetric) GetPersistSeqNo() gocbcore.SeqNo     { return o.persist }

type vStream struct {
	stream.Stream
	observers *wrapper.ConcurrentSwissMap[uint16, couchbase.Observer]
	offsets   *wrapper.ConcurrentSwissMap[uint16, *models.Offset]
	metric    stream.Metric
	active    int32
	cp        stream.CheckpointMetric
}

func (s *vStream) GetObservers() *wrapper.ConcurrentSwissMap[uint16, couchbase.Observer] { return s.observers }
func (s *vStream) GetOffsets() (*wrapper.ConcurrentSwissMap[uint16, *models.Offset], *wrapper.ConcurrentSwissMap[uint16, bool], bool) {
	return s.offsets, nil, false
}
func (s *vStream) GetMetric() (*stream.Metric, int32)             { return &s.metric, s.active }
func (s *vStream) GetCheckpointMetric() *stream.CheckpointMetric { return &s.cp }

type vClient struct {
	couchbase.Client
	high    map[uint16]uint64
	err     error
	queries int
}

func (c *vClient) GetVBucketSeqNos(bool) (*wrapper.ConcurrentSwissMap[uint16, uint64], error) {
	c.queries++
	if c.err != nil {
		return nil, c.err
	}
	m := wrapper.CreateConcurrentSwissMap[uint16, uint64](1024)
	for k, v := range c.high {
		m.Store(k, v)
	}
	return m, nil
}
func (c *vClient) GetAgentQueues() []*models.AgentQueue { return nil }

type vDisc struct {
	stream.VBucketDiscovery
	m stream.VBucketDiscoveryMetric
}

func (d *vDisc) GetMetric() *stream.VBucketDiscoveryMetric { return &d.m }

func vFind(samples []*vSample, name, label string) *vSample {
	var hit *vSample
	n := 0
	for _, s := range samples {
		if s.name == name && (label == "" || (len(s.labels) > 0 && s.labels[0] == label)) {
			hit = s
			n++
		}
	}
	assert(n <= 1, "at most one sample per series")
	return hit
}

// H_C16_collect: arbitrary tracked offsets for two vBuckets, arbitrary server
// high seqnos (above, equal, below the tracked position, or missing), arbitrary
// counters and group figures; or a failing seqno query; or a closed stream.
func H_C16_collect() {
	setMerge(true)
	mapOrderAll(true) // Go map / swiss-map iteration order is unspecified: both visiting orders of the two vBuckets are explored
	st := &vStream{}
	cl := &vClient{high: map[uint16]uint64{}}
	disc := &vDisc{}
	col := NewMetricCollector(cl, st, disc)
	ch := make(chan prometheus.Metric, 128)
	if nondetBool("closed") {
		// stream closed (rebalance window / not yet opened): observers are gone
		col.Collect(ch)
		assert(len(ch) == 0, "scraping a closed stream returns at once with nothing")
		assert(cl.queries == 0, "and makes no server call")
		cover("closed")
		return
	}
	st.observers = wrapper.CreateConcurrentSwissMap[uint16, couchbase.Observer](1024)
	st.offsets = wrapper.CreateConcurrentSwissMap[uint16, *models.Offset](1024)
	n := 2
	if tierThorough() {
		n = 3 // three vBuckets: all six visiting orders
	}
	ids := []uint16{3, 900, 41}[:n]
	labels := []string{"3", "900", "41"}[:n]
	var offs [3]*models.Offset
	var obs [3]*vObsMetric
	var high [3]uint64
	var hasHigh [3]bool
	for i, vb := range ids {
		offs[i] = &models.Offset{SnapshotMarker: &models.SnapshotMarker{StartSeqNo: nondetU64("start"), EndSeqNo: nondetU64("end")}, SeqNo: nondetU64("seq")}
		st.offsets.Store(vb, offs[i])
		obs[i] = &vObsMetric{persist: gocbcore.SeqNo(nondetU64("persist"))}
		obs[i].m.TotalMutations = float64(nondetU32("muts"))
		obs[i].m.TotalDeletions = float64(nondetU32("dels"))
		obs[i].m.TotalExpirations = float64(nondetU32("exps"))
		st.observers.Store(vb, obs[i])
		hasHigh[i] = nondetBool("hasHigh")
		if hasHigh[i] {
			high[i] = nondetU64("high")
			cl.high[vb] = high[i]
		}
	}
	seqErr := nondetBool("seqErr")
	if seqErr {
		cl.err = errors.New("seqno query failed")
	}
	st.active = int32(nondetU32("active"))
	st.metric.Rebalance = int(nondetU16("rebalances"))
	disc.m = stream.VBucketDiscoveryMetric{Type: "static", TotalMembers: int(nondetU16("total")), MemberNumber: int(nondetU16("member")),
		VBucketCount: 1024, VBucketRangeStart: nondetU16("rs"), VBucketRangeEnd: nondetU16("re")}

	col.Collect(ch)
	var samples []*vSample
	for len(ch) > 0 {
		samples = append(samples, (<-ch).(*vSample))
	}
	var total float64
	var lags [3]float64
	for i := range ids {
		s := vFind(samples, "cbgo_seq_no_current", labels[i])
		assert(s != nil && s.val == float64(offs[i].SeqNo), "position gauge equals the tracked seqno")
		s = vFind(samples, "cbgo_start_seq_no_current", labels[i])
		assert(s != nil && s.val == float64(offs[i].StartSeqNo), "snapshot-start gauge")
		s = vFind(samples, "cbgo_end_seq_no_current", labels[i])
		assert(s != nil && s.val == float64(offs[i].EndSeqNo), "snapshot-end gauge")
		s = vFind(samples, "cbgo_mutation_total", labels[i])
		assert(s != nil && s.val == obs[i].m.TotalMutations, "mutation counter")
		s = vFind(samples, "cbgo_deletion_total", labels[i])
		assert(s != nil && s.val == obs[i].m.TotalDeletions, "deletion counter")
		s = vFind(samples, "cbgo_expiration_total", labels[i])
		assert(s != nil && s.val == obs[i].m.TotalExpirations, "expiration counter")
		if !seqErr {
			var lag float64
			h := high[i] // 0 when the server reported nothing for this vBucket
			if h > offs[i].SeqNo {
				lag = float64(h - offs[i].SeqNo)
			}
			total += lag
			lags[i] = lag
			if h > offs[i].SeqNo {
				cover("behind")
			} else {
				cover("caught-up-or-ahead")
			}
			s = vFind(samples, "cbgo_lag_current", labels[i])
			assert(s != nil && !s.invalid && s.val == lag, "lag = max(0, high - tracked)")
			assert(s.val >= 0, "lag is never negative")
		}
	}
	if seqErr {
		cover("seqno-error")
		n := 0
		for _, s := range samples {
			if s.name == "cbgo_lag_current" {
				n++
				assert(s.invalid, "lag is reported invalid when the high seqnos are unknown")
			}
		}
		assert(n == len(ids), "one invalid lag per vBucket")
	} else {
		s := vFind(samples, "cbgo_total_lag_current", "")
		// floating-point addition in either visiting order (the iteration order of the map is unspecified)
		var zero float64
		okSum := false
		if n == 2 {
			okSum = s != nil && (s.val == zero+lags[0]+lags[1] || s.val == zero+lags[1]+lags[0])
		} else {
			for _, o := range [][3]int{{0, 1, 2}, {0, 2, 1}, {1, 0, 2}, {1, 2, 0}, {2, 0, 1}, {2, 1, 0}} {
				if s != nil && s.val == zero+lags[o[0]]+lags[o[1]]+lags[o[2]] {
					okSum = true
				}
			}
		}
		_ = total
		assert(okSum, "total lag is the sum of the per-vBucket lags")
	}
	s := vFind(samples, "cbgo_active_stream_current", "")
	assert(s != nil && s.val == float64(st.active), "active-stream gauge")
	s = vFind(samples, "cbgo_rebalance_current", "")
	assert(s != nil && s.val == float64(st.metric.Rebalance), "rebalance counter")
	s = vFind(samples, "cbgo_total_members_current", "")
	assert(s != nil && s.val == float64(disc.m.TotalMembers), "group size")
	s = vFind(samples, "cbgo_member_number_current", "")
	assert(s != nil && s.val == float64(disc.m.MemberNumber), "member number")
	s = vFind(samples, "cbgo_vbucket_range_start_current", "")
	assert(s != nil && s.val == float64(disc.m.VBucketRangeStart), "range start")
	s = vFind(samples, "cbgo_vbucket_range_end_current", "")
	assert(s != nil && s.val == float64(disc.m.VBucketRangeEnd), "range end")
}
