package couchbase

// The couchbase metadata backend over the scripted server:
// C01_cb (what is written), C15_cbload (load failures), part of C02 (round trip).

import (
	"errors"
	"time"

	"github.com/Trendyol/go-dcp/config"
	"github.com/Trendyol/go-dcp/models"
	"github.com/couchbase/gocbcore/v10"
	"github.com/couchbase/gocbcore/v10/memd"
)

// sonic is modelled as an exact inverse pair over opaque tokens: Marshal
// returns a one-byte handle of the value, Unmarshal hands the value back.
var vTokens []interface{}

func stub__sonic_Marshal(val interface{}) ([]byte, error) {
	vTokens = append(vTokens, val)
	return []byte{byte(len(vTokens) - 1)}, nil
}

var vErrCorrupt = errors.New("corrupt json")

func stub__sonic_Unmarshal(buf []byte, val interface{}) error {
	if len(buf) != 1 || int(buf[0]) >= len(vTokens) {
		return vErrCorrupt
	}
	tok := vTokens[buf[0]]
	switch dst := val.(type) {
	case **models.CheckpointDocument:
		src, ok := tok.(*models.CheckpointDocument)
		if !ok {
			return vErrCorrupt
		}
		cp := *src
		cpc := *src.Checkpoint
		cps := *src.Checkpoint.Snapshot
		cpc.Snapshot = &cps
		cp.Checkpoint = &cpc
		*dst = &cp
	case *map[string]int64:
		src, ok := tok.(map[string]int64)
		if !ok {
			return vErrCorrupt
		}
		out := map[string]int64{}
		for k, v := range src {
			out[k] = v
		}
		*dst = out
	case *Instance:
		switch src := tok.(type) {
		case Instance:
			id := dst.ID
			*dst = src
			dst.ID = id
		case *Instance:
			id := dst.ID
			*dst = *src
			dst.ID = id
		default:
			return vErrCorrupt
		}
	default:
		return vErrCorrupt
	}
	return nil
}

func vKeyNotFound() error {
	return &gocbcore.KeyValueError{StatusCode: memd.StatusKeyNotFound, InnerError: errors.New("key not found")}
}

func vCbMetaConfig() *config.Dcp {
	cfg := &config.Dcp{}
	cfg.Metadata.Type = "couchbase"
	cfg.Checkpoint.Timeout = time.Minute
	cfg.Dcp.Group.Name = "grp"
	return cfg
}

func vCpDoc(tag string) *models.CheckpointDocument {
	return &models.CheckpointDocument{
		Checkpoint: &models.CheckpointDocumentCheckpoint{
			VbUUID: nondetU64(tag + ".vbuuid"), SeqNo: nondetU64(tag + ".seq"),
			Snapshot: &models.CheckpointDocumentSnapshot{StartSeqNo: nondetU64(tag + ".start"), EndSeqNo: nondetU64(tag + ".end")},
		},
		BucketUUID: "bucket-uuid",
	}
}

// H_C01_cb: the real cbMetadata.Save. Two vBuckets in the state map with
// arbitrary dirty flags; per dirty vBucket the server's first answer is ok,
// key-not-found (then the create and the retry answer arbitrarily) or an error.
func H_C01_cb() {
	setPreempt(0) // goroutines switch only where they block; what is written does not depend on finer interleavings
	g := vNewGocb()
	tim := choose("timing", 2)
	g.timing = func(string) int { return tim }
	cfg := vCbMetaConfig()
	md := NewCBMetadata(&client{config: cfg}, cfg)
	state := map[uint16]*models.CheckpointDocument{}
	dirty := map[uint16]bool{}
	ids := [2]uint16{1, 513}
	var docs [2]*models.CheckpointDocument
	var first [2]int
	for i, vb := range ids {
		docs[i] = vCpDoc("doc")
		state[vb] = docs[i]
		if nondetBool("dirty") {
			dirty[vb] = true
			first[i] = choose("first", 3) // 0 ok, 1 key not found, 2 error
		}
	}
	createFails := nondetBool("createFails")
	retryFails := nondetBool("retryFails")
	attempts := map[string]int{}
	g.kv = func(c vKVCall) ([]byte, gocbcore.Cas, error) {
		i := 0
		for j, vb := range ids {
			if c.key == string(getCheckpointID(vb, "grp")) {
				i = j
			}
		}
		switch c.op {
		case "MutateIn":
			attempts[c.key]++
			if attempts[c.key] == 1 {
				switch first[i] {
				case 1:
					return nil, 0, vKeyNotFound()
				case 2:
					return nil, 0, vErrServer
				}
				return nil, 1, nil
			}
			if retryFails {
				return nil, 0, vErrServer
			}
			return nil, 1, nil
		case "Set":
			if createFails {
				return nil, 0, vErrServer
			}
			return nil, 1, nil
		}
		return nil, 0, vErrServer
	}
	err := md.Save(state, dirty, "bucket-uuid")
	// what reached the server
	wantErr := false
	for i, vb := range ids {
		key := string(getCheckpointID(vb, "grp"))
		n := 0
		for _, c := range g.kvCalls {
			if c.key != key {
				continue
			}
			n++
			if c.op == "MutateIn" {
				assert(c.path == "cbgo", "checkpoint lives in the library's xattr")
				assert(len(c.value) == 1 && vTokens[c.value[0]] == interface{}(docs[i]), "the payload written for a vBucket is exactly that vBucket's document")
			}
		}
		if !dirty[vb] {
			assert(n == 0, "a vBucket not flagged dirty is not written")
			continue
		}
		cover("dirty-written")
		assert(n >= 1, "every dirty vBucket is written (unless the save was cut short by another failure)" ) 
		switch first[i] {
		case 1:
			cover("created-on-miss")
			if createFails || retryFails {
				wantErr = true
			}
		case 2:
			wantErr = true
		}
	}
	if wantErr {
		cover("save-error")
		assert(err != nil, "a failed per-vBucket write fails the save")
	} else {
		assert(err == nil, "all writes confirmed: the save succeeds")
	}
}

// H_C15_cbload: the real cbMetadata.Load; each vBucket's read answers a
// document, key-not-found, or another error.
func H_C15_cbload() {
	g := vNewGocb()
	g.timing = func(string) int { return choose("timing", 2) }
	cfg := vCbMetaConfig()
	md := NewCBMetadata(&client{config: cfg}, cfg)
	ids := []uint16{0, 1}
	var answer [2]int
	var docs [2]*models.CheckpointDocument
	for i := range ids {
		answer[i] = choose("answer", 3) // 0 document, 1 not found, 2 error
		docs[i] = vCpDoc("doc")
	}
	g.kv = func(c vKVCall) ([]byte, gocbcore.Cas, error) {
		for i, vb := range ids {
			if c.key == string(getCheckpointID(vb, "grp")) {
				switch answer[i] {
				case 0:
					tok, _ := stub__sonic_Marshal(docs[i])
					return tok, 1, nil
				case 1:
					return nil, 0, vKeyNotFound()
				}
				return nil, 0, vErrServer
			}
		}
		return nil, 0, vErrServer
	}
	mustFail := answer[0] == 2 || answer[1] == 2
	allowCrash(mustFail)
	state, exist, err := md.Load(ids, "bucket-uuid")
	assert(!mustFail, "an unreadable checkpoint terminates start-up")
	assert(err == nil, "no error otherwise")
	assert(exist == (answer[0] == 0 || answer[1] == 0), "existence = some vBucket has a stored checkpoint")
	for i, vb := range ids {
		d, ok := state.Load(vb)
		assert(ok, "every requested vBucket is in the result")
		if answer[i] == 0 {
			cover("loaded")
			c, w := d.Checkpoint, docs[i].Checkpoint
			assert(c.SeqNo == w.SeqNo && c.VbUUID == w.VbUUID && c.Snapshot.StartSeqNo == w.Snapshot.StartSeqNo && c.Snapshot.EndSeqNo == w.Snapshot.EndSeqNo,
				"the loaded document is the stored one, field for field")
		} else {
			cover("missing-is-empty")
			assert(d.Checkpoint.SeqNo == 0 && d.Checkpoint.VbUUID == 0 && d.Checkpoint.Snapshot.StartSeqNo == 0 && d.Checkpoint.Snapshot.EndSeqNo == 0,
				"a missing document loads as the empty checkpoint")
		}
	}
}

// H_C02_cbroundtrip: arbitrary checkpoints written by the real cbMetadata.Save
// into an (initially empty) scripted bucket and read back by the real
// cbMetadata.Load are identical in all four fields, for every 64-bit value.
func H_C02_cbroundtrip() {
	setPreempt(0)
	g := vNewGocb()
	xattrs := map[string][]byte{} // key -> xattr payload; the document must exist first
	docs := map[string]bool{}
	g.kv = func(c vKVCall) ([]byte, gocbcore.Cas, error) {
		switch c.op {
		case "MutateIn":
			if !docs[c.key] {
				return nil, 0, vKeyNotFound()
			}
			if c.path != "cbgo" {
				return nil, 0, vErrServer
			}
			xattrs[c.key] = c.value
			return nil, 1, nil
		case "Set":
			docs[c.key] = true
			return nil, 1, nil
		case "LookupIn":
			v, ok := xattrs[c.key]
			if !ok || c.path != "cbgo" {
				return nil, 0, vKeyNotFound()
			}
			return v, 1, nil
		}
		return nil, 0, vErrServer
	}
	cfg := vCbMetaConfig()
	md := NewCBMetadata(&client{config: cfg}, cfg)
	in := map[uint16]*models.CheckpointDocument{7: vCpDoc("a"), 1000: vCpDoc("b")}
	err := md.Save(in, map[uint16]bool{7: true, 1000: true}, "bucket-uuid")
	assert(err == nil, "save into an empty bucket succeeds (documents are created on demand)")
	out, exist, lerr := md.Load([]uint16{7, 1000, 8}, "bucket-uuid")
	assert(lerr == nil && exist, "load finds the stored checkpoints")
	for vb, want := range in {
		got, ok := out.Load(vb)
		assert(ok, "vBucket present")
		assert(got.Checkpoint.SeqNo == want.Checkpoint.SeqNo && got.Checkpoint.VbUUID == want.Checkpoint.VbUUID &&
			got.Checkpoint.Snapshot.StartSeqNo == want.Checkpoint.Snapshot.StartSeqNo && got.Checkpoint.Snapshot.EndSeqNo == want.Checkpoint.Snapshot.EndSeqNo,
			"save then load through the couchbase backend is lossless for every 64-bit field value")
	}
	empty, ok := out.Load(8)
	assert(ok && empty.Checkpoint.SeqNo == 0 && empty.Checkpoint.VbUUID == 0, "a vBucket without a stored checkpoint loads as empty")
	cover("cb-roundtrip")
}

// H_C20_cbload: the checkpoint read. cbMetadata.Load issues its lookups with a
// background context, so the only deadline is gocbcore's own 5 s Deadline
// option: per vBucket the server answers promptly (inline or racing), refuses,
// or stays silent (gocbcore then fails the operation at its Deadline). Load
// never hangs: it returns the server's documents within the deadline, or the
// process terminates (an unreadable checkpoint stops start-up, C15) - and no
// goroutine stays blocked.
func H_C20_cbload() {
	g := vNewGocb()
	g.honourDeadline = true
	cfg := vCbMetaConfig()
	md := NewCBMetadata(&client{config: cfg}, cfg)
	ids := []uint16{0, 1}
	var answer, timing [2]int
	var docs [2]*models.CheckpointDocument
	for i := range ids {
		answer[i] = choose("answer", 3) // 0 document, 1 not found, 2 refused
		timing[i] = []int{0, 1, 3}[choose("timing", 3)]
		docs[i] = vCpDoc("doc")
	}
	idx := func(key string) int {
		for i, vb := range ids {
			if key == string(getCheckpointID(vb, "grp")) {
				return i
			}
		}
		return -1
	}
	calls := 0
	g.timing = func(string) int {
		// timing is asked once per operation, right before kv(): pair them by key through lastKey
		calls++
		return timing[idx(g.kvCalls[len(g.kvCalls)-1].key)]
	}
	g.kv = func(c vKVCall) ([]byte, gocbcore.Cas, error) {
		i := idx(c.key)
		assert(i >= 0, "only checkpoint keys are read")
		assert(!c.deadline.IsZero(), "every lookup carries a deadline")
		switch answer[i] {
		case 0:
			tok, _ := stub__sonic_Marshal(docs[i])
			return tok, 1, nil
		case 1:
			return nil, 0, vKeyNotFound()
		}
		return nil, 0, vErrServer
	}
	silent := timing[0] == 3 || timing[1] == 3
	mustFail := silent || answer[0] == 2 || answer[1] == 2
	if silent {
		cover("silent-server")
	}
	allowCrash(mustFail)
	t0 := nowNs()
	state, _, err := md.Load(ids, "bucket-uuid")
	assert(!mustFail, "an unreadable or unanswered checkpoint read terminates start-up instead of returning")
	assert(err == nil, "no error otherwise")
	assert(nowNs()-t0 <= int64(5*time.Second), "Load returns within the lookup deadline")
	for i, vb := range ids {
		d, ok := state.Load(vb)
		assert(ok, "every requested vBucket is in the result")
		if answer[i] == 0 {
			cover("loaded")
			assert(d.Checkpoint.SeqNo == docs[i].Checkpoint.SeqNo && d.Checkpoint.VbUUID == docs[i].Checkpoint.VbUUID, "the document returned is the server's")
		} else {
			assert(d.Checkpoint.SeqNo == 0, "a missing document loads as the empty checkpoint")
		}
	}
	quiesce()
	assert(blockedThreads() == 0, "no goroutine is left blocked")
}
