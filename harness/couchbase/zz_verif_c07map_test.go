package couchbase

// C07 (cluster-map shapes): how a cluster map becomes the per-vBucket table of
// listed copies that getMinSeqNo quantifies over.

import (
	"github.com/couchbase/gocbcore/v10"
)

// H_C07_map: the real reset() + markAbsentInstances() over a cluster map with
// 0..3 replicas and, per (vBucket, copy), an arbitrary placement: a server
// index (any int, negative = unassigned), "invalid replica", or another
// error. Two vBuckets. The table gets replicas+1 fresh copies per vBucket,
// a copy is listed exactly when the map assigns it a server, any other error
// is reported (reconfigure stops the client on it). Then arbitrary reports are
// written into the table and the published minimum equals the specification
// over exactly the listed copies - an unlisted copy never holds delivery back,
// a listed one that has not reported always does.
func H_C07_map() {
	setMerge(true)
	g := vNewGocb()
	replicas := choose("replicas", 4)
	g.numReplicas = replicas
	vbs := []uint16{nondetU16("vb0"), nondetU16("vb1")}
	assume(vbs[0] != vbs[1])
	const kOK, kInvalid, kOther = 0, 1, 2
	kind := [2][4]int{}
	srv := [2][4]int{}
	anyOther := false
	for v := 0; v < 2; v++ {
		for i := 0; i <= replicas; i++ {
			kind[v][i] = choose("placement", 3)
			srv[v][i] = nondetInt("server")
			if kind[v][i] == kOther {
				anyOther = true
			}
		}
	}
	g.vbToServer = func(vbID uint16, idx uint32) (int, error) {
		v := 0
		if vbID == vbs[1] {
			v = 1
		}
		assert(vbID == vbs[0] || vbID == vbs[1], "only assigned vBuckets are looked up")
		assert(int(idx) <= replicas, "only copies 0..replicas are looked up")
		switch kind[v][idx] {
		case kInvalid:
			return 0, gocbcore.ErrInvalidReplica
		case kOther:
			return 0, vErrOther
		}
		return srv[v][idx], nil
	}
	r := vNewRM(vbs[0], nil, nil)
	r.vbIds = vbs
	r.configSnapshot = new(gocbcore.ConfigSnapshot)
	r.reset()
	assert(r.persistedSeqNos.Count() == 2, "one table row per assigned vBucket")
	assert(int(r.observeCount.Load()) == 2*(replicas+1), "one observation per copy per vBucket")
	err := r.markAbsentInstances()
	if anyOther {
		cover("map-error")
		assert(err != nil, "a placement error other than 'invalid replica' is reported")
		return
	}
	assert(err == nil, "a well-formed map is accepted")
	for v := 0; v < 2; v++ {
		row, ok := r.persistedSeqNos.Load(vbs[v])
		assert(ok && len(row) == replicas+1, "active + every replica has a table entry")
		table := make([]vRep, replicas+1)
		for i := 0; i <= replicas; i++ {
			listed := kind[v][i] == kOK && srv[v][i] >= 0
			assert(row[i].IsAbsent() == !listed, "a copy is listed exactly when the cluster map assigns it a server")
			assert(row[i].seqNo == 0 && row[i].vbUUID == 0, "a fresh table entry has reported nothing")
			if !listed {
				cover("unassigned-copy")
			}
			// arbitrary reports arrive
			table[i] = vRep{absent: !listed, uuid: nondetU64("uuid"), seq: nondetU64("seq")}
			row[i].SetVbUUID(gocbcore.VbUUID(table[i].uuid))
			row[i].SetSeqNo(gocbcore.SeqNo(table[i].seq))
		}
		got := r.getMinSeqNo(vbs[v])
		assert(uint64(got) == vSpecMin(table), "the threshold is the agreed minimum over exactly the copies the cluster map lists")
	}
	if replicas == 0 {
		cover("no-replicas")
	}
	if replicas == 3 {
		cover("three-replicas")
	}
}
