package couchbase

// C02 (wire) / C08 — what the real client.OpenStream asks the server for.

import (
	"github.com/Trendyol/go-dcp/config"
	"github.com/Trendyol/go-dcp/models"
	"github.com/couchbase/gocbcore/v10"
)

// vObs is a recording couchbase.Observer (only the calls OpenStream makes matter).
type vObs struct {
	Observer
	vbUUIDs  []gocbcore.VbUUID
	catchups []gocbcore.SeqNo
}

func (o *vObs) SetVbUUID(u gocbcore.VbUUID) { o.vbUUIDs = append(o.vbUUIDs, u) }
func (o *vObs) SetCatchup(s gocbcore.SeqNo) { o.catchups = append(o.catchups, s) }

func vArbOffset(tag string) *models.Offset {
	return &models.Offset{
		SnapshotMarker: &models.SnapshotMarker{StartSeqNo: nondetU64(tag + ".start"), EndSeqNo: nondetU64(tag + ".end")},
		VbUUID:         gocbcore.VbUUID(nondetU64(tag + ".vbuuid")),
		SeqNo:          nondetU64(tag + ".seq"),
		LatestSeqNo:    nondetU64(tag + ".latest"),
	}
}

// H_C02_wire: every 64-bit value of the five offset fields reaches the server
// request in the right parameter; the collection filter is the configured ids.
func H_C02_wire() {
	g := vNewGocb()
	g.collections = nondetBool("collections")
	g.timing = func(string) int { return choose("timing", 2) }
	newUUID := gocbcore.VbUUID(nondetU64("server.vbuuid"))
	g.openStream = func(c vOpenStreamCall) ([]gocbcore.FailoverEntry, error) {
		return []gocbcore.FailoverEntry{{VbUUID: newUUID, SeqNo: 0}}, nil
	}
	cl := &client{config: &config.Dcp{}}
	off := vArbOffset("off")
	vb := nondetU16("vb")
	obs := &vObs{}
	cids := map[uint32]string{}
	ncoll := choose("ncoll", 3)
	for i := 0; i < ncoll; i++ {
		cids[uint32(8+i)] = "c"
	}
	err := cl.OpenStream(vb, cids, off, obs)
	assert(err == nil, "a confirmed stream request succeeds")
	assert(len(g.openStreamCalls) == 1, "exactly one request")
	c := g.openStreamCalls[0]
	assert(c.vbID == vb, "vBucket id")
	assert(c.vbUUID == off.VbUUID, "vbUUID is the persisted vbUUID")
	assert(uint64(c.start) == off.SeqNo, "start is the persisted seqno")
	assert(uint64(c.end) == off.LatestSeqNo, "end is the session's end seqno")
	assert(uint64(c.snapStart) == off.StartSeqNo, "snapshot start is the persisted one")
	assert(uint64(c.snapEnd) == off.EndSeqNo, "snapshot end is the persisted one")
	assert(c.observer == gocbcore.StreamObserver(obs), "events go to this vBucket's observer")
	if g.collections && ncoll > 0 {
		cover("filtered")
		assert(c.opts.FilterOptions != nil && len(c.opts.FilterOptions.CollectionIDs) == ncoll, "collection filter lists the configured ids")
	} else {
		cover("unfiltered")
		assert(c.opts.FilterOptions == nil, "no collection filter")
	}
	assert(len(obs.vbUUIDs) == 1 && obs.vbUUIDs[0] == newUUID, "observer adopts the vbUUID of the opened branch")
	assert(len(obs.catchups) == 0, "no catch-up without a rollback")
}
