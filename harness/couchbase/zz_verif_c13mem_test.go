package couchbase

// C13 (membership monitor): cbMembership.Close() stops the heart-beat and the
// monitor goroutines of the couchbase membership type.

import (
	"time"

	"github.com/couchbase/gocbcore/v10"
)

// H_C13_membership: one real cbMembership instance with its real heart-beat
// and monitor goroutines on the virtual clock over the shared key-value
// store; Close() arrives right after start-up, between monitor rounds, at a
// heart-beat instant or after it. Running everything to
// quiescence afterwards: both goroutines end, no monitor round reads or writes
// the store after Close(), and at most the one heart-beat whose interval was
// already running is sent.
func H_C13_membership() {
	setMerge(true)
	setPreempt(0)
	g := vNewGocb()
	kv := &vKVStore{docs: map[string]*vKVDoc{}}
	closed := false
	opsBefore, readsAfter, writesAfter := 0, 0, 0
	g.kv = func(c vKVCall) ([]byte, gocbcore.Cas, error) {
		if closed {
			if c.op == "Get" {
				readsAfter++
			} else {
				writesAfter++
			}
		} else {
			opsBefore++
		}
		return kv.handle(c)
	}
	m := vJoin("a")
	registered := opsBefore
	m.h.startHeartbeat()
	m.h.startMonitor()
	info := m.h.GetInfo() // start-up (vBucketDiscovery.Get inside stream.Open) returns with the first monitor round
	assert(info != nil && info.MemberNumber == 1 && info.TotalMembers == 1, "alone in the group")
	assert(opsBefore > registered, "the monitor was running before Close()")
	// Close() right after start-up, between monitor rounds, at a heart-beat instant, after it
	time.Sleep([]time.Duration{0, 200 * time.Millisecond, 4 * time.Second, 5300 * time.Millisecond}[choose("when", 4)])
	cover("closed-while-monitoring")
	m.h.Close()
	closed = true
	setHorizon(nowNs() + int64(30*time.Second))
	quiesce()
	assert(blockedThreads() == 0, "heart-beat and monitor goroutines have ended")
	assert(readsAfter == 0, "no monitor round after Close()")
	assert(writesAfter <= 1, "at most the heart-beat already due is sent after Close()")
}
