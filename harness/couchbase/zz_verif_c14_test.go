package couchbase

// C14 (keys) — every checkpoint key lies under the reserved prefix, is distinct
// for distinct (group, vBucket) pairs, and ambiguous group names are rejected.

func init() {
	vHarnesses["C14_keys"] = H_C14_keys
}

func vContainsDot(s string) bool {
	has := false
	for i := 0; i < len(s); i++ {
		if s[i] == '.' {
			has = true
		}
	}
	return has
}

func vIsASCII(s string) bool {
	ok := true
	for i := 0; i < len(s); i++ {
		if s[i] >= 0x80 {
			ok = false
		}
	}
	return ok
}

func H_C14_keys() {
	setMerge(true)
	const P = "_connector:cbgo:"
	maxName := 4
	if tierThorough() {
		maxName = 10
	}
	n1 := nondetStr("g1", concretize(nondetInt("len1"), 0, maxName))
	n2 := nondetStr("g2", concretize(nondetInt("len2"), 0, maxName))
	v1, v2 := nondetU16("vb1"), nondetU16("vb2")
	assume(vIsASCII(n1) && vIsASCII(n2))
	var id1, id2 []byte
	p1, _ := expectPanic(func() { id1 = getCheckpointID(v1, n1) })
	assert(p1 == vContainsDot(n1), "group name is rejected iff it contains a dot")
	if p1 {
		cover("rejected-dot")
		return
	}
	cover("accepted")
	assert(len(id1) >= len(P) && string(id1[:len(P)]) == P, "checkpoint key has the reserved prefix")
	p2, _ := expectPanic(func() { id2 = getCheckpointID(v2, n2) })
	if p2 {
		return
	}
	if string(id1) == string(id2) {
		assert(n1 == n2 && v1 == v2, "equal keys imply equal (group, vBucket)")
	} else {
		cover("distinct")
	}
}
