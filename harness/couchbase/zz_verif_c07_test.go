package couchbase

// C07 — with rollback mitigation, nothing the cluster could still roll back is delivered.

import (
	"errors"
	"sync"
	"sync/atomic"
	"time"

	"github.com/Trendyol/go-dcp/config"
	"github.com/Trendyol/go-dcp/models"
	"github.com/Trendyol/go-dcp/wrapper"
	"github.com/couchbase/gocbcore/v10"
)

func init() {
	vHarnesses["C07_min"] = H_C07_min
	vHarnesses["C07_thr"] = H_C07_thr
}

type vRep struct {
	absent bool
	uuid   uint64
	seq    uint64
}

// vSpecMin: the agreed persisted minimum of a replica table, written
// independently of the code: 0 unless every listed copy is on one vbUUID.
func vSpecMin(t []vRep) uint64 {
	have := false
	var uuid, min uint64
	agree := true
	for _, r := range t {
		if r.absent {
			continue
		}
		if !have {
			have, uuid, min = true, r.uuid, r.seq
			continue
		}
		if r.uuid != uuid {
			agree = false
		}
		if r.seq < min {
			min = r.seq
		}
	}
	if !have || !agree {
		return 0
	}
	return min
}

func vNewRM(vb uint16, table []vRep, disp models.PersistSeqNoDispatcher) *rollbackMitigation {
	cfg := &config.Dcp{}
	cfg.RollbackMitigation.Interval = 500 * time.Millisecond
	r := &rollbackMitigation{
		client:                 &client{config: cfg},
		config:                 cfg,
		vbIds:                  []uint16{vb},
		observeCount:           &atomic.Uint32{},
		observeCloseCh:         make(chan struct{}, 1),
		observeCloseDoneCh:     make(chan struct{}, 1),
		persistSeqNoDispatcher: disp,
		persistedSeqNos:        wrapper.CreateConcurrentSwissMap[uint16, []*vbUUIDAndSeqNo](1024),
		vbUUIDMap:              wrapper.CreateConcurrentSwissMap[uint16, gocbcore.VbUUID](1024),
		activeGroupID:          1,
	}
	reps := make([]*vbUUIDAndSeqNo, len(table))
	for i, t := range table {
		reps[i] = &vbUUIDAndSeqNo{vbUUID: gocbcore.VbUUID(t.uuid), seqNo: gocbcore.SeqNo(t.seq), absent: t.absent}
	}
	r.persistedSeqNos.Store(vb, reps)
	return r
}

func vArbTable(n int) []vRep {
	t := make([]vRep, n)
	for i := range t {
		t[i] = vRep{absent: nondetBool("absent"), uuid: nondetU64("uuid"), seq: nondetU64("seq")}
	}
	return t
}

// H_C07_min: replica tables of 1..4 copies (0..3 replicas), every entry
// arbitrary: the published minimum equals the specification.
func H_C07_min() {
	n := 1 + choose("copies", 4)
	table := vArbTable(n)
	vb := nondetU16("vb")
	r := vNewRM(vb, table, nil)
	got := r.getMinSeqNo(vb)
	want := vSpecMin(table)
	assert(uint64(got) == want, "agreed minimum: 0 unless all listed copies share one vbUUID, else the smallest persisted seqno")
	if want != 0 {
		cover("agreed")
	} else {
		cover("not-agreed")
	}
}

// H_C07_thr: the per-stream threshold never decreases.
func H_C07_thr() {
	o, _ := vNewObserver(vObsConfig(), 1, 0, nil)
	old, nw := nondetU64("old"), nondetU64("new")
	o.persistSeqNo = gocbcore.SeqNo(old)
	o.SetPersistSeqNo(gocbcore.SeqNo(nw))
	got := uint64(o.GetPersistSeqNo())
	assert(got >= old, "threshold never decreases")
	if nw != 0 && nw > old {
		cover("raised")
		assert(got == nw, "raised to the newly agreed minimum")
	} else {
		cover("kept")
		assert(got == old, "kept otherwise")
	}
}

var vErrOther = errors.New("some other failure")

// H_C07_step (inductive step): arbitrary table, arbitrary stream threshold not
// above G (the largest minimum ever agreed); one persistence report with
// arbitrary replica index, result, error class, stale group id or closed flag.
func H_C07_step() {
	setMerge(true)
	g := vNewGocb()
	n := 1 + choose("copies", 3)
	table := vArbTable(n)
	vb := nondetU16("vb")
	o, _ := vNewObserver(vObsConfig(), vb, 0, nil)
	G := nondetU64("G")
	assume(G >= vSpecMin(table))
	thr := nondetU64("threshold")
	assume(thr <= G)
	o.persistSeqNo = gocbcore.SeqNo(thr)
	dispatched := 0
	disp := func(p *models.PersistSeqNo) {
		dispatched++
		assert(p.VbID == vb, "report is for this vBucket")
		o.SetPersistSeqNo(p.SeqNo)
	}
	r := vNewRM(vb, table, disp)
	stale := nondetBool("stale")
	closed := nondetBool("closed")
	r.closed = closed
	gid := 1
	if stale {
		gid = 0
	}
	idx := choose("replica", n)
	res := &gocbcore.ObserveVbResult{VbUUID: gocbcore.VbUUID(nondetU64("r.uuid")), PersistSeqNo: gocbcore.SeqNo(nondetU64("r.seq"))}
	errClass := choose("err", 5)
	g.observeVb = func(gocbcore.ObserveVbOptions) (*gocbcore.ObserveVbResult, error) {
		switch errClass {
		case 1:
			return nil, gocbcore.ErrUnambiguousTimeout
		case 2:
			return nil, gocbcore.ErrTemporaryFailure
		case 3:
			return nil, gocbcore.ErrBusy
		case 4:
			return nil, vErrOther
		}
		return res, nil
	}
	wg := &sync.WaitGroup{}
	wg.Add(1)
	p, _ := expectPanic(func() { r.observe(vb, idx, gid, gocbcore.VbUUID(nondetU64("known.uuid")), wg) })
	ignored := stale || closed
	if ignored {
		cover("ignored")
		assert(!p && dispatched == 0, "a report for a superseded cluster map or a stopped poller changes nothing")
		assert(uint64(o.GetPersistSeqNo()) == thr, "threshold untouched")
		return
	}
	if errClass == 4 {
		cover("fatal")
		assert(p, "an unexpected observe error stops the client")
		return
	}
	assert(!p, "transient observe errors are tolerated")
	if errClass != 0 {
		cover("transient")
		assert(dispatched == 0 && uint64(o.GetPersistSeqNo()) == thr, "a failed observation changes nothing")
		return
	}
	cover("report")
	if !table[idx].absent {
		table[idx].uuid, table[idx].seq = uint64(res.VbUUID), uint64(res.PersistSeqNo)
	}
	min2 := vSpecMin(table)
	G2 := G
	if min2 > G2 {
		G2 = min2
	}
	got := uint64(o.GetPersistSeqNo())
	assert(got >= thr, "threshold never decreases")
	assert(got <= G2, "threshold never exceeds what every listed copy has reported under one vbUUID")
}

// H_C07_gate: a delivering goroutine hands Mutation(seq=s) to the real observer
// with rollback mitigation on, while K persistence reports arrive through the
// real observe callback at arbitrary moments. At the instant the event reaches
// the listener every listed copy must have reported >= s under one vbUUID.
func H_C07_gate() {
	K := 3
	if tierThorough() {
		K = 4
	}
	vC07gate(K, false)
}

// H_C07_gatectl: the same gate for a control event that carries a sequence
// number of its own (seqno-advanced: its offset is what the consumer
// checkpoints) - it waits at the gate like a document event.
func H_C07_gatectl() {
	K := 2
	if tierThorough() {
		K = 3
	}
	vC07gate(K, true)
}

func vC07gate(K int, control bool) {
	setMerge(true)
	g := vNewGocb()
	cfg := &config.Dcp{}
	cfg.RollbackMitigation.Interval = 500 * time.Millisecond
	setHorizon(int64(3 * time.Second))
	vb := uint16(5)
	n := 1 + choose("copies", 2)
	table := make([]vRep, n) // nothing reported yet
	G := uint64(0)
	s := nondetU64("s")
	assume(s > 0)
	delivered := false
	sink := func(a models.ListenerArgs) {
		_, isDoc := a.Event.(models.DcpMutation)
		_, isAdv := a.Event.(models.DcpSeqNoAdvanced)
		if isDoc || isAdv {
			delivered = true
			assert(G >= s, "delivered only after every listed copy reported a persisted seqno >= s under one vbUUID")
		}
	}
	obs := NewObserver(cfg, vb, 0, sink, func(models.DcpStreamEndContext) {}, nil, tracingForTests()).(*observer)
	obs.currentSnapshot = &models.SnapshotMarker{StartSeqNo: 0, EndSeqNo: ^uint64(0)}
	r := vNewRM(vb, table, func(p *models.PersistSeqNo) { obs.SetPersistSeqNo(p.SeqNo) })
	var cur *gocbcore.ObserveVbResult
	// the ghost state is advanced at the instant the server produces the report
	g.observeVb = func(o gocbcore.ObserveVbOptions) (*gocbcore.ObserveVbResult, error) {
		table[o.ReplicaIdx].uuid, table[o.ReplicaIdx].seq = uint64(cur.VbUUID), uint64(cur.PersistSeqNo)
		if m := vSpecMin(table); m > G {
			G = m
		}
		return cur, nil
	}
	returned := false
	spawnEnv(func() {
		if control {
			obs.SeqNoAdvanced(gocbcore.DcpSeqNoAdvanced{SeqNo: s, VbID: vb})
		} else {
			obs.Mutation(gocbcore.DcpMutation{SeqNo: s, VbID: vb, Key: []byte("k")})
		}
		returned = true
	})
	uuids := [2]uint64{nondetU64("uuidA"), nondetU64("uuidB")}
	for i := 0; i < K; i++ {
		idx := choose("replica", n)
		cur = &gocbcore.ObserveVbResult{VbUUID: gocbcore.VbUUID(uuids[choose("branch", 2)]), PersistSeqNo: gocbcore.SeqNo(nondetU64("p"))}
		wg := &sync.WaitGroup{}
		wg.Add(1)
		r.observe(vb, idx, 1, 0, wg)
		yield()
	}
	quiesce()
	if G >= s {
		cover("covered")
		assert(delivered && returned, "once the threshold covers a waiting event it is delivered (no lost wake-up)")
	} else {
		cover("still-waiting")
		assert(!delivered && !returned, "newer events wait while copies disagree or lag")
		obs.Close()
		setHorizon(nowNs() + int64(time.Second)) // a released waiter returns within one poll; a stuck one polls on until the horizon
		quiesce()
		assert(returned && !delivered, "closing the stream releases the waiting event without delivering it")
	}
}
