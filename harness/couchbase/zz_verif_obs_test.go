package couchbase

// C03 / C06 / C08(feed) / C16(count) — the per-vBucket observer.

import (
	"time"

	dcpcfg "github.com/Trendyol/go-dcp/config"
	"github.com/Trendyol/go-dcp/models"
	"github.com/Trendyol/go-dcp/tracing"
	"github.com/couchbase/gocbcore/v10"
)

func init() {
	vHarnesses["C03_step"] = H_C03_step
	vHarnesses["C06_hist"] = H_C06_hist
	vHarnesses["C08_feed"] = H_C08_feed
	vHarnesses["C03_pair"] = H_C03_pair
	vHarnesses["C06_reopen"] = H_C06_reopen
}

type vSink struct {
	events []interface{}
	ends   []models.DcpStreamEndContext
}

func (s *vSink) listen(a models.ListenerArgs)           { s.events = append(s.events, a.Event) }
func (s *vSink) end(c models.DcpStreamEndContext)       { s.ends = append(s.ends, c) }

func vNewObserver(cfg *dcpcfg.Dcp, vbID uint16, latest uint64, colls map[uint32]string) (*observer, *vSink) {
	sink := &vSink{}
	o := NewObserver(cfg, vbID, latest, sink.listen, sink.end, colls, tracing.NewTracerComponent()).(*observer)
	return o, sink
}

func vObsConfig() *dcpcfg.Dcp {
	cfg := &dcpcfg.Dcp{}
	cfg.RollbackMitigation.Disabled = true
	return cfg
}

// H_C03_step (inductive step): an observer in an arbitrary state (current
// snapshot nil or arbitrary, vbUUID, catch-up armed with arbitrary F or not,
// skipUntil nil or an arbitrary instant, two arbitrary collection ids) is
// handed ONE arbitrary event of any kind with every payload field arbitrary.
func H_C03_step() {
	setMerge(true)
	cfg := vObsConfig()
	hasSkip := nondetBool("hasSkip")
	skipSec := nondetI64("skipSec")
	assume(skipSec > -(1<<60) && skipSec < (1<<60))
	if hasSkip {
		t := time.Unix(skipSec, 0)
		cfg.Dcp.Listener.SkipUntil = &t
	}
	cid0, cid1 := nondetU32("cid0"), nondetU32("cid1")
	assume(cid0 != cid1)
	colls := map[uint32]string{cid0: "alpha", cid1: "beta"}
	vb := nondetU16("vb")
	latest := nondetU64("latest")
	o, sink := vNewObserver(cfg, vb, latest, colls)
	// arbitrary pre-state
	hasSnap := nondetBool("hasSnap")
	snapS, snapE := nondetU64("snap.start"), nondetU64("snap.end")
	var preSnap *models.SnapshotMarker
	if hasSnap {
		preSnap = &models.SnapshotMarker{StartSeqNo: snapS, EndSeqNo: snapE}
		o.currentSnapshot = preSnap
	}
	uuid := gocbcore.VbUUID(nondetU64("vbuuid"))
	o.SetVbUUID(uuid)
	armed := nondetBool("armed")
	F := nondetU64("F")
	if armed {
		o.SetCatchup(gocbcore.SeqNo(F))
	}

	seq := nondetU64("seq")
	cas := nondetU64("cas")
	coll := nondetU32("coll")
	key := nondetBytes("key", 2)
	val := nondetBytes("val", 1)
	rev := nondetU64("rev")
	flags, expiry, lock := nondetU32("flags"), nondetU32("expiry"), nondetU32("lock")
	dtype := nondetU8("datatype")
	streamID := nondetU16("streamID")

	// reference filter
	dropCatchup := armed && seq <= F
	dropSkip := hasSkip && skipSec > int64(cas/1000000000)
	inSnap := hasSnap && snapS <= seq && seq <= snapE
	wantName := "_default"
	if coll == cid0 {
		wantName = "alpha"
	} else if coll == cid1 {
		wantName = "beta"
	}

	kind := choose("kind", 12)
	var panicked bool
	switch kind {
	case 0:
		m := gocbcore.DcpMutation{SeqNo: seq, RevNo: rev, Cas: cas, Flags: flags, Expiry: expiry, LockTime: lock,
			CollectionID: coll, VbID: vb, StreamID: streamID, Datatype: dtype, Key: key, Value: val}
		panicked, _ = expectPanic(func() { o.Mutation(m) })
	case 1:
		d := gocbcore.DcpDeletion{SeqNo: seq, RevNo: rev, Cas: cas, DeleteTime: expiry, CollectionID: coll, VbID: vb,
			StreamID: streamID, Datatype: dtype, Key: key, Value: val}
		panicked, _ = expectPanic(func() { o.Deletion(d) })
	case 2:
		e := gocbcore.DcpExpiration{SeqNo: seq, RevNo: rev, Cas: cas, DeleteTime: expiry, CollectionID: coll, VbID: vb,
			StreamID: streamID, Key: key}
		panicked, _ = expectPanic(func() { o.Expiration(e) })
	case 3:
		panicked, _ = expectPanic(func() {
			o.CreateCollection(gocbcore.DcpCollectionCreation{SeqNo: seq, VbID: vb, CollectionID: coll, StreamID: streamID})
		})
	case 4:
		panicked, _ = expectPanic(func() {
			o.DeleteCollection(gocbcore.DcpCollectionDeletion{SeqNo: seq, VbID: vb, CollectionID: coll, StreamID: streamID})
		})
	case 5:
		panicked, _ = expectPanic(func() {
			o.FlushCollection(gocbcore.DcpCollectionFlush{SeqNo: seq, VbID: vb, CollectionID: coll, StreamID: streamID})
		})
	case 6:
		panicked, _ = expectPanic(func() { o.CreateScope(gocbcore.DcpScopeCreation{SeqNo: seq, VbID: vb, StreamID: streamID}) })
	case 7:
		panicked, _ = expectPanic(func() { o.DeleteScope(gocbcore.DcpScopeDeletion{SeqNo: seq, VbID: vb, StreamID: streamID}) })
	case 8:
		panicked, _ = expectPanic(func() {
			o.ModifyCollection(gocbcore.DcpCollectionModification{SeqNo: seq, VbID: vb, CollectionID: coll, StreamID: streamID})
		})
	case 9:
		end := nondetU64("marker.end")
		panicked, _ = expectPanic(func() {
			o.SnapshotMarker(models.DcpSnapshotMarker{StartSeqNo: seq, EndSeqNo: end, VbID: vb, StreamID: streamID})
		})
		assert(!panicked, "a snapshot marker never stops the client")
		assert(o.currentSnapshot != nil && o.currentSnapshot != preSnap, "a marker installs a fresh snapshot object (never mutates the one earlier offsets point to)")
		assert(o.currentSnapshot.StartSeqNo == seq && o.currentSnapshot.EndSeqNo == end, "the announced range is adopted")
		if hasSnap {
			assert(preSnap.StartSeqNo == snapS && preSnap.EndSeqNo == snapE, "the previous snapshot object is untouched")
		}
		assert(len(sink.events) == 1, "marker forwarded")
		assert(o.isCatchupNeed == armed, "a marker does not consume the catch-up")
		cover("marker")
		return
	case 10:
		panicked, _ = expectPanic(func() { o.SeqNoAdvanced(gocbcore.DcpSeqNoAdvanced{SeqNo: seq, VbID: vb, StreamID: streamID}) })
		assert(!panicked, "seqno-advanced never stops the client")
		assert(len(sink.events) == 1, "seqno-advanced forwarded")
		ev := sink.events[0].(models.DcpSeqNoAdvanced)
		assert(ev.Offset.SeqNo == seq && ev.Offset.StartSeqNo == seq && ev.Offset.EndSeqNo == seq && ev.Offset.VbUUID == uuid && ev.Offset.LatestSeqNo == latest,
			"seqno-advanced carries [s,s] as its own closed snapshot")
		assert(ev.Offset.SnapshotMarker != preSnap, "seqno-advanced installs a fresh snapshot object")
		assert(o.isCatchupNeed == armed, "seqno-advanced does not consume the catch-up")
		cover("seqno-advanced")
		return
	default:
		panicked, _ = expectPanic(func() { o.OSOSnapshot(models.DcpOSOSnapshot{VbID: vb, StreamID: streamID}) })
		assert(!panicked && len(sink.events) == 1, "OSO marker forwarded")
		cover("oso")
		return
	}

	// document (0..2) and system (3..8) events
	isDoc := kind <= 2
	dropped := dropCatchup || (isDoc && dropSkip)
	if dropped {
		cover("dropped")
		assert(!panicked, "a filtered event never stops the client")
		assert(len(sink.events) == 0, "a filtered event is not forwarded")
		assert(o.metrics.TotalMutations == 0 && o.metrics.TotalDeletions == 0 && o.metrics.TotalExpirations == 0, "a filtered event is not counted: the counters are the events accepted")
	} else if !inSnap {
		cover("out-of-snapshot")
		assert(panicked, "an event outside its announced snapshot stops the client")
		assert(len(sink.events) == 0, "an event outside its announced snapshot is not forwarded")
	} else {
		cover("forwarded")
		assert(!panicked, "an in-snapshot event does not stop the client")
		assert(len(sink.events) == 1, "forwarded exactly once")
		var off *models.Offset
		switch ev := sink.events[0].(type) {
		case models.DcpMutation:
			cover("mutation")
			off = ev.Offset
			assert(string(ev.Key) == string(key) && string(ev.Value) == string(val), "key and value unchanged")
			assert(ev.Cas == cas && ev.SeqNo == seq && ev.RevNo == rev && ev.Flags == flags && ev.Expiry == expiry && ev.LockTime == lock &&
				ev.Datatype == dtype && ev.VbID == vb && ev.CollectionID == coll && ev.StreamID == streamID, "scalar fields unchanged")
			assert(ev.CollectionName == wantName, "collection name is the configured one or _default")
			assert(ev.EventTime.Unix() == int64(cas/1000000000) && ev.EventTime.Nanosecond() == 0, "event time is the CAS timestamp in seconds")
			assert(o.metrics.TotalMutations == 1 && o.metrics.TotalDeletions == 0 && o.metrics.TotalExpirations == 0, "mutation counter")
		case models.DcpDeletion:
			cover("deletion")
			off = ev.Offset
			assert(string(ev.Key) == string(key) && string(ev.Value) == string(val), "key and value unchanged")
			assert(ev.Cas == cas && ev.SeqNo == seq && ev.RevNo == rev && ev.DeleteTime == expiry && ev.Datatype == dtype && ev.VbID == vb &&
				ev.CollectionID == coll, "scalar fields unchanged")
			assert(ev.CollectionName == wantName, "collection name is the configured one or _default")
			assert(ev.EventTime.Unix() == int64(cas/1000000000), "event time is the CAS timestamp in seconds")
			assert(o.metrics.TotalMutations == 0 && o.metrics.TotalDeletions == 1 && o.metrics.TotalExpirations == 0, "deletion counter")
		case models.DcpExpiration:
			cover("expiration")
			off = ev.Offset
			assert(string(ev.Key) == string(key), "key unchanged")
			assert(ev.Cas == cas && ev.SeqNo == seq && ev.RevNo == rev && ev.DeleteTime == expiry && ev.VbID == vb && ev.CollectionID == coll, "scalar fields unchanged")
			assert(ev.CollectionName == wantName, "collection name is the configured one or _default")
			assert(ev.EventTime.Unix() == int64(cas/1000000000), "event time is the CAS timestamp in seconds")
			assert(o.metrics.TotalMutations == 0 && o.metrics.TotalDeletions == 0 && o.metrics.TotalExpirations == 1, "expiration counter")
		case models.DcpCollectionCreation:
			off = ev.Offset
			assert(kind == 3 && ev.SeqNo == seq && ev.CollectionName == wantName, "collection creation forwarded as such")
		case models.DcpCollectionDeletion:
			off = ev.Offset
			assert(kind == 4 && ev.SeqNo == seq, "collection deletion forwarded as such")
		case models.DcpCollectionFlush:
			off = ev.Offset
			assert(kind == 5 && ev.SeqNo == seq, "collection flush forwarded as such")
		case models.DcpScopeCreation:
			off = ev.Offset
			assert(kind == 6 && ev.SeqNo == seq, "scope creation forwarded as such")
		case models.DcpScopeDeletion:
			off = ev.Offset
			assert(kind == 7 && ev.SeqNo == seq, "scope deletion forwarded as such")
		case models.DcpCollectionModification:
			off = ev.Offset
			assert(kind == 8 && ev.SeqNo == seq, "collection modification forwarded as such")
		default:
			assert(false, "event forwarded with an unexpected type")
		}
		if isDoc {
			want := [3]bool{kind == 0, kind == 1, kind == 2}
			_, isM := sink.events[0].(models.DcpMutation)
			_, isD := sink.events[0].(models.DcpDeletion)
			_, isE := sink.events[0].(models.DcpExpiration)
			assert(isM == want[0] && isD == want[1] && isE == want[2], "document event keeps its kind")
		}
		if off != nil {
			assert(off.SeqNo == seq, "offset is the event's own position")
			assert(off.SnapshotMarker == preSnap && off.StartSeqNo == snapS && off.EndSeqNo == snapE, "offset carries the announced snapshot range")
			assert(off.StartSeqNo <= off.SeqNo && off.SeqNo <= off.EndSeqNo, "offset is a valid resume point")
			assert(off.VbUUID == uuid, "offset carries the vbUUID of the opened branch")
			assert(off.LatestSeqNo == latest, "offset carries the session end")
		}
	}
	// catch-up state: consumed exactly when an event at or above F was seen
	if armed {
		assert(o.isCatchupNeed == (seq < F), "catch-up stays armed until an event at or above F arrives")
	} else {
		assert(!o.isCatchupNeed, "catch-up stays disarmed")
	}
}

type vOffSnap struct{ seq, start, end, uuid uint64 }

// H_C06_hist: K events (marker / mutation / deletion / seqno-advanced) in any
// order with arbitrary values, no assumption that items lie in their marker.
// Offsets handed out earlier are re-read at the end (after newer snapshots):
// they must be bit-identical — an old event acknowledged late still names its
// own snapshot.
func H_C06_hist() {
	setMerge(true)
	K := 4
	if tierThorough() {
		K = 5
	}
	o, sink := vNewObserver(vObsConfig(), 7, ^uint64(0), nil)
	uuid := gocbcore.VbUUID(nondetU64("vbuuid"))
	o.SetVbUUID(uuid)
	var given []*models.Offset
	var snap []vOffSnap
	haveSnap := false
	var curS, curE uint64
	for i := 0; i < K; i++ {
		seq := nondetU64("seq")
		before := len(sink.events)
		switch choose("kind", 4) {
		case 0:
			end := nondetU64("end")
			o.SnapshotMarker(models.DcpSnapshotMarker{StartSeqNo: seq, EndSeqNo: end, VbID: 7})
			haveSnap, curS, curE = true, seq, end
			cover("marker")
			continue
		case 1:
			p, _ := expectPanic(func() { o.Mutation(gocbcore.DcpMutation{SeqNo: seq, VbID: 7, Key: []byte("k")}) })
			in := haveSnap && curS <= seq && seq <= curE
			assert(p == !in, "mutation outside the announced snapshot stops the client, inside it does not")
			if p {
				cover("stopped")
				assert(len(sink.events) == before, "nothing delivered when stopping")
				return
			}
		case 2:
			p, _ := expectPanic(func() { o.Deletion(gocbcore.DcpDeletion{SeqNo: seq, VbID: 7, Key: []byte("k")}) })
			in := haveSnap && curS <= seq && seq <= curE
			assert(p == !in, "deletion outside the announced snapshot stops the client, inside it does not")
			if p {
				return
			}
		case 3:
			o.SeqNoAdvanced(gocbcore.DcpSeqNoAdvanced{SeqNo: seq, VbID: 7})
			haveSnap, curS, curE = true, seq, seq
			cover("seqno-advanced")
		}
		assert(len(sink.events) == before+1, "exactly one event forwarded per accepted server event")
		var off *models.Offset
		switch ev := sink.events[len(sink.events)-1].(type) {
		case models.DcpMutation:
			off = ev.Offset
		case models.DcpDeletion:
			off = ev.Offset
		case models.DcpSeqNoAdvanced:
			off = ev.Offset
		}
		assert(off != nil, "forwarded event carries an offset")
		assert(off.SeqNo == seq && off.StartSeqNo == curS && off.EndSeqNo == curE && off.VbUUID == uuid, "offset = (own seqno, announced snapshot, stream vbUUID)")
		assert(off.StartSeqNo <= off.SeqNo && off.SeqNo <= off.EndSeqNo, "valid resume point")
		given = append(given, off)
		snap = append(snap, vOffSnap{off.SeqNo, off.StartSeqNo, off.EndSeqNo, uint64(off.VbUUID)})
	}
	for i, off := range given {
		cover("reread")
		assert(off.SeqNo == snap[i].seq && off.StartSeqNo == snap[i].start && off.EndSeqNo == snap[i].end && uint64(off.VbUUID) == snap[i].uuid,
			"an offset handed out earlier is not altered by later snapshots")
	}
}

// H_C08_feed: after a rollback the observer is told F (catch-up) and the new
// branch's vbUUID; K server events with increasing seqnos follow (anywhere
// relative to F, including exactly F). The consumer sees none at or below F,
// every document event above F exactly once, all with the new vbUUID.
func H_C08_feed() {
	setMerge(true)
	K := 4
	if tierThorough() {
		K = 9
	}
	o, sink := vNewObserver(vObsConfig(), 3, ^uint64(0), nil)
	F := nondetU64("F")
	newUUID := gocbcore.VbUUID(nondetU64("newUUID"))
	o.SetVbUUID(newUUID)
	o.SetCatchup(gocbcore.SeqNo(F))
	last := uint64(0)
	expect := 0
	for i := 0; i < K; i++ {
		seq := nondetU64("seq")
		assume(seq > last)
		last = seq
		// each item is announced by a marker that contains it (server contract)
		ms, me := nondetU64("ms"), nondetU64("me")
		assume(ms <= seq && seq <= me)
		o.SnapshotMarker(models.DcpSnapshotMarker{StartSeqNo: ms, EndSeqNo: me, VbID: 3})
		nmark := 1
		before := len(sink.events)
		if choose("kind", 2) == 0 {
			o.Mutation(gocbcore.DcpMutation{SeqNo: seq, VbID: 3, Key: []byte("k")})
		} else {
			o.Expiration(gocbcore.DcpExpiration{SeqNo: seq, VbID: 3, Key: []byte("k")})
		}
		_ = nmark
		docs := len(sink.events) - before // the marker was forwarded before `before` was taken
		if seq <= F {
			cover("at-or-below-F")
			assert(docs == 0, "an event at or below the checkpointed position is not shown again")
		} else {
			cover("above-F")
			expect++
			assert(docs == 1, "every document event above the checkpointed position is shown exactly once")
			var off *models.Offset
			switch ev := sink.events[len(sink.events)-1].(type) {
			case models.DcpMutation:
				off = ev.Offset
			case models.DcpExpiration:
				off = ev.Offset
			}
			assert(off != nil && off.VbUUID == newUUID && off.SeqNo == seq, "offsets after the rollback carry the new branch's vbUUID")
		}
	}
	got := 0
	for _, e := range sink.events {
		switch e.(type) {
		case models.DcpMutation, models.DcpExpiration:
			got++
		}
	}
	assert(got == expect, "consumer saw exactly the events above F")
}

func tracingForTests() *tracing.TracerComponent { return tracing.NewTracerComponent() }

// H_C03_pair: two observers (two vBuckets) fed alternately: no cross-talk —
// each forwards its own events with its own vBucket's snapshot and vbUUID.
func H_C03_pair() {
	setMerge(true)
	cfg := vObsConfig()
	a, sa := vNewObserver(cfg, 1, ^uint64(0), nil)
	b, sb := vNewObserver(cfg, 2, ^uint64(0), nil)
	ua, ub := gocbcore.VbUUID(nondetU64("ua")), gocbcore.VbUUID(nondetU64("ub"))
	a.SetVbUUID(ua)
	b.SetVbUUID(ub)
	s1, e1, s2, e2 := nondetU64("a.s"), nondetU64("a.e"), nondetU64("b.s"), nondetU64("b.e")
	x, y := nondetU64("a.seq"), nondetU64("b.seq")
	assume(s1 <= x && x <= e1 && s2 <= y && y <= e2)
	a.SnapshotMarker(models.DcpSnapshotMarker{StartSeqNo: s1, EndSeqNo: e1, VbID: 1})
	b.SnapshotMarker(models.DcpSnapshotMarker{StartSeqNo: s2, EndSeqNo: e2, VbID: 2})
	a.Mutation(gocbcore.DcpMutation{SeqNo: x, VbID: 1, Key: []byte("ka")})
	b.Deletion(gocbcore.DcpDeletion{SeqNo: y, VbID: 2, Key: []byte("kb")})
	assert(len(sa.events) == 2 && len(sb.events) == 2, "each vBucket's consumer side sees exactly its own events")
	ma := sa.events[1].(models.DcpMutation)
	db := sb.events[1].(models.DcpDeletion)
	assert(ma.VbID == 1 && ma.Offset.SeqNo == x && ma.Offset.StartSeqNo == s1 && ma.Offset.EndSeqNo == e1 && ma.Offset.VbUUID == ua && string(ma.Key) == "ka", "vBucket 1's event is untouched by vBucket 2's stream")
	assert(db.VbID == 2 && db.Offset.SeqNo == y && db.Offset.StartSeqNo == s2 && db.Offset.EndSeqNo == e2 && db.Offset.VbUUID == ub && string(db.Key) == "kb", "vBucket 2's event is untouched by vBucket 1's stream")
	cover("pair")
}

// H_C06_reopen: one observer lives through the whole session and is handed to
// every re-open of its vBucket (stream.reopenStream after a transient end). S
// stream sessions of the real client.OpenStream + the real observer over the
// scripted server: each open answers with an arbitrary failover log head, then a
// marker and a document event arrive, then the stream ends transiently. Every
// offset handed out is (own seqno, the announced snapshot of ITS stream, the
// vbUUID of the branch ITS stream was opened on) - never a mixture of two streams.
func H_C06_reopen() {
	S := 2
	if tierThorough() {
		S = 3
	}
	g := vNewGocb()
	g.timing = func(string) int { return 0 }
	var head gocbcore.VbUUID
	g.openStream = func(c vOpenStreamCall) ([]gocbcore.FailoverEntry, error) {
		return []gocbcore.FailoverEntry{{VbUUID: head, SeqNo: 0}, {VbUUID: gocbcore.VbUUID(1), SeqNo: 0}}, nil
	}
	cl := &client{config: &dcpcfg.Dcp{}}
	o, sink := vNewObserver(vObsConfig(), 7, ^uint64(0), nil)
	off := vArbOffset("resume")
	for i := 0; i < S; i++ {
		head = gocbcore.VbUUID(nondetU64("head"))
		err := cl.OpenStream(7, nil, off, o)
		assert(err == nil, "a confirmed stream request succeeds")
		assert(g.openStreamCalls[len(g.openStreamCalls)-1].observer == gocbcore.StreamObserver(o), "the re-open hands the same observer to the server connection")
		start, end, seq := nondetU64("start"), nondetU64("end"), nondetU64("seq")
		assume(start <= seq && seq <= end)
		o.SnapshotMarker(models.DcpSnapshotMarker{StartSeqNo: start, EndSeqNo: end, VbID: 7})
		before := len(sink.events)
		if nondetBool("deletion") {
			o.Deletion(gocbcore.DcpDeletion{SeqNo: seq, VbID: 7, Key: []byte("k")})
		} else {
			o.Mutation(gocbcore.DcpMutation{SeqNo: seq, VbID: 7, Key: []byte("k")})
		}
		assert(len(sink.events) == before+1, "the document event is forwarded")
		var got *models.Offset
		switch ev := sink.events[before].(type) {
		case models.DcpMutation:
			got = ev.Offset
		case models.DcpDeletion:
			got = ev.Offset
		}
		assert(got != nil && got.SeqNo == seq && got.StartSeqNo == start && got.EndSeqNo == end, "offset names its own event and the snapshot announced on its own stream")
		assert(got.VbUUID == head, "offset carries the vbUUID of the branch its own stream was opened on")
		off = got
		ends := len(sink.ends)
		o.End(models.DcpStreamEnd{VbID: 7}, gocbcore.ErrDCPStreamStateChanged)
		assert(len(sink.ends) == ends+1, "the transient end reaches the stream layer")
		if i > 0 {
			cover("reopened")
		}
	}
}
