package couchbase

// C20 — no Couchbase call made by the library can hang or invent an outcome.

import (
	"context"
	"errors"
	"time"

	"github.com/Trendyol/go-dcp/config"
	"github.com/Trendyol/go-dcp/models"
	"github.com/couchbase/gocbcore/v10"
)

var vErrServer = errors.New("server said no")

// vC20 drives one wrapper under every server behaviour:
//   timing 0 reply before the wrapper waits, 1 reply racing the waiter,
//   2 reply long after the deadline, 3 no reply, 4 dispatch error;
//   outcome: confirmed or refused.
// `invoke` runs the wrapper and returns its error; `deadline` tells whether
// the wrapper has a context deadline (else timing 3 is outside the contract).
func vC20(op string, deadline bool, invoke func(serverErr error) error) {
	g := vG
	ntim := 5
	tim := choose("timing", ntim)
	if tim == 3 && !deadline {
		assume(false) // gocbcore's own Deadline option answers for the silent server
	}
	g.timing = func(string) int { return tim }
	var serverErr error
	if nondetBool("refused") {
		serverErr = vErrServer
	}
	err := invoke(serverErr)
	// the wrapper returned: it did not hang
	if len(g.ops) == 0 {
		cover("dispatch-error")
		assert(tim == 4 && err != nil, "a dispatch error is reported")
		quiesce()
		assert(blockedThreads() == 0, "nothing left blocked")
		return
	}
	pending := g.ops[0]
	if err == nil {
		cover("success")
		assert(pending.delivered, "success only after the server's reply arrived")
		assert(serverErr == nil, "success is never reported for an operation the server did not confirm")
	} else if pending.delivered && !pending.cancelled {
		cover("server-error")
		assert(err == serverErr || (serverErr == nil && deadline), "completion won: the server's own outcome (or the expired deadline) is returned")
	} else {
		cover("deadline")
		assert(pending.cancelled, "when the deadline wins the pending operation is cancelled")
	}
	// a completion arriving after the wrapper gave up neither blocks nor panics
	quiesce()
	if tim == 2 {
		cover("late-reply")
		assert(pending.delivered, "the late reply was delivered")
	}
	assert(blockedThreads() == 0, "no goroutine is left blocked by a late or missing reply")
}

func vKVAnswer(val []byte) func(vKVCall) ([]byte, gocbcore.Cas, error) {
	return func(vKVCall) ([]byte, gocbcore.Cas, error) { return val, 7, vC20ServerErr }
}

var vC20ServerErr error

func vCtx() (context.Context, context.CancelFunc) {
	return context.WithTimeout(context.Background(), 5*time.Second)
}

func H_C20_upsertXattrs() {
	vNewGocb()
	vC20("UpsertXattrs", true, func(se error) error {
		vC20ServerErr = se
		vG.kv = vKVAnswer(nil)
		ctx, cancel := vCtx()
		defer cancel()
		return UpsertXattrs(ctx, nil, "s", "c", []byte("id"), "cbgo", []byte("v"), 0)
	})
}

func H_C20_createDocument() {
	vNewGocb()
	vC20("CreateDocument", true, func(se error) error {
		vC20ServerErr = se
		vG.kv = vKVAnswer(nil)
		ctx, cancel := vCtx()
		defer cancel()
		return CreateDocument(ctx, nil, "s", "c", []byte("id"), []byte("v"), 0, 0)
	})
}

func H_C20_updateDocument() {
	vNewGocb()
	vC20("UpdateDocument", true, func(se error) error {
		vC20ServerErr = se
		vG.kv = vKVAnswer(nil)
		ctx, cancel := vCtx()
		defer cancel()
		return UpdateDocument(ctx, nil, "s", "c", []byte("id"), []byte("v"), 0, nil)
	})
}

func H_C20_deleteDocument() {
	vNewGocb()
	vC20("DeleteDocument", true, func(se error) error {
		vC20ServerErr = se
		vG.kv = vKVAnswer(nil)
		ctx, cancel := vCtx()
		defer cancel()
		return DeleteDocument(ctx, nil, "s", "c", []byte("id"))
	})
}

func H_C20_createPath() {
	vNewGocb()
	vC20("CreatePath", true, func(se error) error {
		vC20ServerErr = se
		vG.kv = vKVAnswer(nil)
		ctx, cancel := vCtx()
		defer cancel()
		return CreatePath(ctx, nil, "s", "c", []byte("id"), []byte("p"), []byte("v"), 0)
	})
}

func H_C20_getXattrs() {
	vNewGocb()
	want := nondetBytes("xattr", 2)
	vC20("GetXattrs", true, func(se error) error {
		vC20ServerErr = se
		vG.kv = vKVAnswer(want)
		ctx, cancel := vCtx()
		defer cancel()
		got, err := GetXattrs(ctx, nil, "s", "c", []byte("id"), "cbgo")
		if err == nil {
			assert(string(got) == string(want), "the value returned is the server's")
		} else {
			assert(got == nil, "no value with an error")
		}
		return err
	})
}

func H_C20_get() {
	vNewGocb()
	want := nondetBytes("doc", 2)
	vC20("Get", true, func(se error) error {
		vC20ServerErr = se
		vG.kv = vKVAnswer(want)
		ctx, cancel := vCtx()
		defer cancel()
		got, err := Get(ctx, nil, "s", "c", []byte("id"))
		if err == nil {
			assert(got != nil && string(got.Value) == string(want) && got.Cas == 7, "the document returned is the server's")
		}
		return err
	})
}

func vC20Client() *client {
	cfg := &config.Dcp{}
	cfg.HealthCheck.Timeout = 5 * time.Second
	return &client{config: cfg}
}

func H_C20_ping() {
	vNewGocb()
	vC20("Ping", true, func(se error) error {
		vG.ping = func() (*gocbcore.PingResult, error) {
			if se != nil {
				return nil, se
			}
			return &gocbcore.PingResult{Services: map[gocbcore.ServiceType][]gocbcore.EndpointPingResult{
				gocbcore.MemdService: {{Endpoint: "kv", State: gocbcore.PingStateOK}},
				gocbcore.MgmtService: {{Endpoint: "mgmt", State: gocbcore.PingStateOK}},
			}}, nil
		}
		res, err := vC20Client().Ping()
		if err == nil {
			assert(res != nil && res.MemdEndpoint == "kv" && res.MgmtEndpoint == "mgmt", "ping result is the server's")
		}
		return err
	})
}

func H_C20_failoverLogs() {
	vNewGocb()
	u := gocbcore.VbUUID(nondetU64("uuid"))
	vC20("GetFailOverLogs", true, func(se error) error {
		vG.failoverLog = func(uint16) ([]gocbcore.FailoverEntry, error) {
			if se != nil {
				return nil, se
			}
			return []gocbcore.FailoverEntry{{VbUUID: u}}, nil
		}
		logs, err := vC20Client().GetFailOverLogs(3)
		if err == nil {
			assert(len(logs) == 1 && logs[0].VbUUID == u, "failover log is the server's")
		}
		return err
	})
}

func H_C20_openStream() {
	vNewGocb()
	vC20("OpenStream", true, func(se error) error {
		vG.openStream = func(vOpenStreamCall) ([]gocbcore.FailoverEntry, error) {
			if se != nil {
				return nil, se
			}
			return []gocbcore.FailoverEntry{{VbUUID: 9}}, nil
		}
		obs := &vObs{}
		err := vC20Client().OpenStream(1, nil, &models.Offset{SnapshotMarker: &models.SnapshotMarker{}}, obs)
		if err == nil {
			assert(len(obs.vbUUIDs) == 1, "a confirmed open told the observer its branch")
		}
		return err
	})
}

func H_C20_closeStream() {
	vNewGocb()
	vC20("CloseStream", true, func(se error) error {
		vG.closeStream = func(uint16) error { return se }
		return vC20Client().CloseStream(1)
	})
}

func H_C20_collectionID() {
	vNewGocb()
	id := nondetU32("cid")
	vC20("getCollectionID", true, func(se error) error {
		vG.collectionID = func(string, string) (uint32, error) { return id, se }
		ctx, cancel := vCtx()
		defer cancel()
		got, err := vC20Client().getCollectionID(ctx, "s", "c")
		if err == nil {
			assert(got == id, "collection id is the server's")
		}
		return err
	})
}

// H_C20_seqnos: GetVBucketSeqNos over 1..2 nodes; any node may refuse.
func H_C20_seqnos() {
	g := vNewGocb()
	g.numServers = 1 + choose("nodes", 2)
	tim := choose("timing", 3) // inline, racing, dispatch error (index 2 -> 4)
	if tim == 2 {
		tim = 4
	}
	g.timing = func(op string) int {
		if op == "GetVbucketSeqnos" {
			return tim
		}
		return 0
	}
	refuse := [2]bool{nondetBool("refuse1"), nondetBool("refuse2")}
	seq := [2]uint64{nondetU64("seq0"), nondetU64("seq1")}
	g.seqnos = func(serverIdx int, _ gocbcore.GetVbucketSeqnoOptions) ([]gocbcore.VbSeqNoEntry, error) {
		if refuse[serverIdx-1] {
			return nil, vErrServer
		}
		return []gocbcore.VbSeqNoEntry{{VbID: uint16(serverIdx - 1), SeqNo: gocbcore.SeqNo(seq[serverIdx-1])}}, nil
	}
	m, err := vC20Client().GetVBucketSeqNos(false)
	anyRefused := refuse[0] || (g.numServers == 2 && refuse[1])
	if tim == 4 {
		cover("dispatch-error")
		assert(err != nil, "dispatch error reported")
	} else if anyRefused {
		cover("node-refused")
		assert(err != nil, "success is never reported when a node did not confirm its sequence numbers")
	} else {
		cover("all-confirmed")
		assert(err == nil && m != nil, "all nodes confirmed")
		for i := 0; i < g.numServers; i++ {
			v, ok := m.Load(uint16(i))
			assert(ok && v == seq[i], "sequence numbers are the servers'")
		}
	}
	quiesce()
	assert(blockedThreads() == 0, "no goroutine left blocked")
}

// H_C20_precancelled: the caller's context is already finished when the wrapper
// is entered although its deadline is far away - cbMetadata.Save runs its writes
// in an errgroup whose context is cancelled as soon as one sibling fails, and
// register/monitor/Clear issue several operations on one context. Under every
// server behaviour the wrapper returns an error and the dispatched operation is
// not left queued: at the moment the wrapper returns it has either completed or
// been cancelled.
func H_C20_precancelled() {
	vNewGocb()
	g := vG
	tim := choose("timing", 5)
	g.timing = func(string) int { return tim }
	vC20ServerErr = nil
	if nondetBool("refused") {
		vC20ServerErr = vErrServer
	}
	g.kv = vKVAnswer(nil)
	ctx, cancel := context.WithTimeout(context.Background(), time.Hour)
	cancel()
	var err error
	switch choose("wrapper", 3) {
	case 0:
		err = UpsertXattrs(ctx, nil, "s", "c", []byte("id"), "cbgo", []byte("v"), 0)
	case 1:
		err = CreateDocument(ctx, nil, "s", "c", []byte("id"), []byte("v"), 0, 0)
	case 2:
		_, err = Get(ctx, nil, "s", "c", []byte("id"))
	}
	assert(err != nil, "no success is reported on a finished context")
	if len(g.ops) == 0 {
		cover("precancelled-dispatch-error")
		assert(tim == 4, "only a dispatch error leaves no pending operation")
	} else {
		pending := g.ops[0]
		assert(pending.delivered || pending.cancelled, "the dispatched operation has completed or was cancelled when the wrapper returns: it is not left queued")
		if !pending.delivered {
			cover("precancelled-cancelled")
		}
	}
	quiesce()
	assert(blockedThreads() == 0, "no goroutine is left blocked by a late or missing reply")
	cover("precancelled")
}
