package couchbase

// C08 (request) — a server-requested rollback is honoured.

import (
	"errors"

	"github.com/Trendyol/go-dcp/config"
	"github.com/couchbase/gocbcore/v10"
)

// H_C08_req: the server answers the first stream request with "roll back to
// R"; the failover log has n<=4 entries (newest first, start seqnos
// non-increasing, oldest starts at 0) with arbitrary values; the second
// request is confirmed or refused.
func H_C08_req() {
	setMerge(true)
	g := vNewGocb()
	g.timing = func(string) int { return choose("timing", 2) }
	off := vArbOffset("off")
	R := nondetU64("R")
	assume(R <= off.SeqNo)
	maxLog := 4
	if tierThorough() {
		maxLog = 7
	}
	n := 1 + choose("loglen", maxLog)
	log := make([]gocbcore.FailoverEntry, n)
	for i := 0; i < n; i++ {
		log[i] = gocbcore.FailoverEntry{VbUUID: gocbcore.VbUUID(nondetU64("log.uuid")), SeqNo: gocbcore.SeqNo(nondetU64("log.seq"))}
		if i > 0 {
			assume(log[i].SeqNo <= log[i-1].SeqNo)
		}
	}
	assume(log[n-1].SeqNo == 0)
	g.failoverLog = func(uint16) ([]gocbcore.FailoverEntry, error) { return log, nil }
	secondFails := nondetBool("secondFails")
	refusal := errors.New("stream request refused")
	newUUID := gocbcore.VbUUID(nondetU64("new.uuid"))
	g.openStream = func(c vOpenStreamCall) ([]gocbcore.FailoverEntry, error) {
		if len(g.openStreamCalls) == 1 {
			return nil, gocbcore.DCPRollbackError{InnerError: errors.New("rollback"), SeqNo: gocbcore.SeqNo(R)}
		}
		if secondFails {
			return nil, refusal
		}
		return []gocbcore.FailoverEntry{{VbUUID: newUUID, SeqNo: 0}}, nil
	}
	cl := &client{config: &config.Dcp{}}
	vb := nondetU16("vb")
	obs := &vObs{}
	err := cl.OpenStream(vb, nil, off, obs)

	assert(len(g.openStreamCalls) == 2, "the vBucket is re-requested once")
	first, second := g.openStreamCalls[0], g.openStreamCalls[1]
	// independent forward scan: newest entry whose branch contains R
	want := gocbcore.VbUUID(0)
	found := false
	for i := 0; i < n; i++ {
		if !found && uint64(log[i].SeqNo) <= R {
			want, found = log[i].VbUUID, true
		}
	}
	assert(found, "some branch contains R (oldest starts at 0)")
	assert(second.vbID == vb, "same vBucket")
	assert(second.vbUUID == want, "re-request on the history branch that contains R")
	assert(uint64(second.start) == R, "re-request starts at R")
	assert(uint64(second.snapStart) == R && uint64(second.snapEnd) == R, "re-request snapshot range is [R,R]")
	assert(second.end == first.end && uint64(second.end) == off.LatestSeqNo, "re-request keeps the same end")
	assert(second.observer == first.observer, "same observer")
	if secondFails {
		cover("second-refused")
		assert(err == refusal, "a vBucket that cannot be reopened reports the error")
		assert(len(obs.catchups) == 0 && len(obs.vbUUIDs) == 0, "observer untouched when the re-request fails")
	} else {
		cover("second-ok")
		assert(err == nil, "confirmed re-request succeeds")
		assert(len(obs.vbUUIDs) == 1 && obs.vbUUIDs[0] == newUUID, "observer adopts the new branch's vbUUID")
		assert(len(obs.catchups) == 1 && uint64(obs.catchups[0]) == off.SeqNo, "observer catches up to the position already checkpointed")
	}
}
