package couchbase

func init() { vHarnesses["SELF_couchbase"] = H_SELF_couchbase }

// Inputs of TestGetCheckpointID*, TestClient_ResolveHttpAddress-free parts and the version parser.
func H_SELF_couchbase() {
	assert(string(getCheckpointID(1, "group")) == "_connector:cbgo:group:checkpoint:1", "checkpoint id")
	assert(string(getCheckpointID(1023, "g-1")) == "_connector:cbgo:g-1:checkpoint:1023", "checkpoint id 1023")
	p, _ := expectPanic(func() { getCheckpointID(1, "a.b") })
	assert(p, "dot rejected")
	v, err := nodeVersionFromString("7.6.3-4200-enterprise")
	assert(err == nil && v.Major == 7 && v.Minor == 6 && v.Patch == 3 && v.Build == 4200, "7.6.3-4200-enterprise")
	v, err = nodeVersionFromString("6.5.0")
	assert(err == nil && v.Equal(SrvVer650) && !v.Lower(SrvVer650) && v.Higher(SrvVer550), "6.5.0")
	_, err = nodeVersionFromString("x.1")
	assert(err != nil, "bad major")
	cover("self")
}
