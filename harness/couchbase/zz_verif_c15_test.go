package couchbase

// C15 (type guards) — backends refuse a configuration that does not name them.

import (
	"github.com/Trendyol/go-dcp/config"
	"github.com/Trendyol/go-dcp/metadata"
)

func H_C15_cbtypes() {
	setMerge(true)
	cfg := &config.Dcp{}
	typ := nondetStr("type", concretize(nondetInt("len"), 0, 10))
	cfg.Metadata.Type = typ
	cfg.Metadata.Config = map[string]string{"fileName": "cp.json"}
	p, _ := expectPanic(func() { NewCBMetadata(&client{config: cfg}, cfg) })
	assert(p == (typ != "couchbase"), "couchbase metadata is refused iff the configured type is not couchbase")
	if p {
		cover("cb-rejected")
	} else {
		cover("cb-accepted")
	}
	pf, _ := expectPanic(func() { metadata.NewFSMetadata(cfg) })
	assert(pf == (typ != "file"), "file metadata is refused iff the configured type is not file")
	if pf {
		cover("fs-rejected")
	}
	// dcp.Start picks by these two predicates and terminates when neither holds
	assert(cfg.IsCouchbaseMetadata() == (typ == "couchbase") && cfg.IsFileMetadata() == (typ == "file"), "type predicates are exact string matches")
}
