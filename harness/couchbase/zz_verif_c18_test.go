package couchbase

// C18 — server-version gating rests on a consistent total order.

func init() {
	vHarnesses["C18_order"] = H_C18_order
	vHarnesses["C18_trans"] = H_C18_trans
}

func vVersion(tag string) *Version {
	return &Version{
		Major: nondetInt(tag + ".major"),
		Minor: nondetInt(tag + ".minor"),
		Patch: nondetInt(tag + ".patch"),
		Build: nondetInt(tag + ".build"),
	}
}

// reference: lexicographic comparison written independently of the code.
func vLexLess(a, b *Version) bool {
	if a.Major != b.Major {
		return a.Major < b.Major
	}
	if a.Minor != b.Minor {
		return a.Minor < b.Minor
	}
	if a.Patch != b.Patch {
		return a.Patch < b.Patch
	}
	return a.Build < b.Build
}

func vTupleEq(a, b *Version) bool {
	return a.Major == b.Major && a.Minor == b.Minor && a.Patch == b.Patch && a.Build == b.Build
}

func vB2I(b bool) int {
	if b {
		return 1
	}
	return 0
}

// H_C18_order: for all a, b (four 64-bit ints each, no bound): exactly one of
// Lower/Equal/Higher; Higher(a,b) <=> Lower(b,a); all agree with the spec.
func H_C18_order() {
	a, b := vVersion("a"), vVersion("b")
	lo, eq, hi := a.Lower(b), a.Equal(b), a.Higher(b)
	assert(vB2I(lo)+vB2I(eq)+vB2I(hi) == 1, "trichotomy")
	assert(hi == b.Lower(a), "higher-is-converse-of-lower")
	assert(lo == b.Higher(a), "lower-is-converse-of-higher")
	assert(eq == b.Equal(a), "equal-symmetric")
	assert(eq == vTupleEq(a, b), "equal-is-tuple-equality")
	assert(lo == vLexLess(a, b), "lower-is-lexicographic")
	assert(hi == vLexLess(b, a), "higher-is-lexicographic")
	if lo {
		cover("lower")
	}
	if eq {
		cover("equal")
	}
	if hi {
		cover("higher")
	}
}

// H_C18_trans: transitivity of Lower and of Higher on arbitrary triples.
func H_C18_trans() {
	a, b, c := vVersion("a"), vVersion("b"), vVersion("c")
	if a.Lower(b) && b.Lower(c) {
		cover("chain-lower")
		assert(a.Lower(c), "lower-transitive")
		assert(!c.Lower(a), "lower-antisymmetric")
	}
	if a.Higher(b) && b.Higher(c) {
		cover("chain-higher")
		assert(a.Higher(c), "higher-transitive")
	}
	if a.Equal(b) && b.Equal(c) {
		assert(a.Equal(c), "equal-transitive")
	}
	if a.Equal(b) {
		assert(a.Lower(c) == b.Lower(c), "equal-congruent-lower")
		assert(a.Higher(c) == b.Higher(c), "equal-congruent-higher")
	}
}

// H_C18_gates: feature gating is monotone in the server version. The two gate
// forms the library uses are `Higher(v,G) || Equal(v,G)` (newDcp: expiry
// opcode from 6.5.0, change streams from 7.2.0) and `Lower(v,G)` (NewStream:
// serial closing below 5.5.0). For every v <= w: gate(v) => gate(w).
func H_C18_gates() {
	v, w := vVersion("v"), vVersion("w")
	assume(vLexLess(v, w) || vTupleEq(v, w))
	gates := []*Version{SrvVer550, SrvVer650, SrvVer720}
	for _, g := range gates {
		onV := v.Higher(g) || v.Equal(g)
		onW := w.Higher(g) || w.Equal(g)
		if onV {
			cover("gate-on")
			assert(onW, "a feature enabled at version v stays enabled at every later version")
		}
		assert(onV == !v.Lower(g), "the below-gate test is the exact complement of the at-or-above test")
		if w.Lower(g) {
			cover("gate-off")
			assert(v.Lower(g), "a version below a gate has every earlier version below it too")
		}
	}
	assert(SrvVer550.Major == 5 && SrvVer550.Minor == 5 && SrvVer650.Major == 6 && SrvVer650.Minor == 5 && SrvVer720.Major == 7 && SrvVer720.Minor == 2, "gate constants are 5.5.0 / 6.5.0 / 7.2.0")
}

func vDigits(tag string, n int) (string, int) {
	s := nondetStr(tag, n)
	v := 0
	for i := 0; i < n; i++ {
		assume(s[i] >= '0' && s[i] <= '9')
		v = v*10 + int(s[i]-'0')
	}
	return s, v
}

// H_C18_parse: "M.m.p-build-edition" with 1..2 arbitrary digits per component
// parses to the tuple it denotes; shorter well-formed prefixes too.
func H_C18_parse() {
	setMerge(true)
	maxD := 2
	if tierThorough() {
		maxD = 4
	}
	ms, mv := vDigits("major", concretize(nondetInt("lm"), 1, maxD))
	ns, nv := vDigits("minor", concretize(nondetInt("ln"), 1, maxD))
	ps, pv := vDigits("patch", 1)
	bs, bv := vDigits("build", concretize(nondetInt("lb"), 1, maxD+1))
	var s string
	var want Version
	switch choose("shape", 5) {
	case 0:
		s, want = ms, Version{Major: mv}
	case 1:
		s, want = ms+"."+ns, Version{Major: mv, Minor: nv}
	case 2:
		s, want = ms+"."+ns+"."+ps, Version{Major: mv, Minor: nv, Patch: pv}
	case 3:
		s, want = ms+"."+ns+"."+ps+"-"+bs, Version{Major: mv, Minor: nv, Patch: pv, Build: bv}
	default:
		s, want = ms+"."+ns+"."+ps+"-"+bs+"-enterprise", Version{Major: mv, Minor: nv, Patch: pv, Build: bv}
	}
	got, err := nodeVersionFromString(s)
	assert(err == nil && got != nil, "a well-formed version string parses")
	assert(got.Major == want.Major && got.Minor == want.Minor && got.Patch == want.Patch && got.Build == want.Build, "the parsed tuple is the one the string denotes")
	cover("parsed")
}

// H_C18_malformed: arbitrary short byte strings never crash the parser, and a
// non-numeric major is an error.
func H_C18_malformed() {
	setMerge(true)
	maxS := 4
	if tierThorough() {
		maxS = 7
	}
	n := concretize(nondetInt("len"), 0, maxS)
	s := nondetStr("s", n)
	for i := 0; i < n; i++ {
		assume(s[i] < 0x80)
	}
	p, _ := expectPanic(func() {
		v, err := nodeVersionFromString(s)
		if n > 0 && (s[0] < '0' || s[0] > '9') && s[0] != '+' && s[0] != '-' {
			cover("bad-major")
			assert(err != nil && v == nil, "a non-numeric major version is refused")
		}
	})
	assert(!p, "the version parser never crashes on malformed input")
}
