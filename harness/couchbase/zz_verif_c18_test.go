package couchbase

// C18 — server-version gating rests on a consistent total order.

func init() {
	vHarnesses["C18_order"] = H_C18_order
	vHarnesses["C18_trans"] = H_C18_trans
}

func vVersion(tag string) *Version {
	return &Version{
		Major: nondetInt(tag + ".major"),
		Minor: nondetInt(tag + ".minor"),
		Patch: nondetInt(tag + ".patch"),
		Build: nondetInt(tag + ".build"),
	}
}

// reference: lexicographic comparison written independently of the code.
func vLexLess(a, b *Version) bool {
	if a.Major != b.Major {
		return a.Major < b.Major
	}
	if a.Minor != b.Minor {
		return a.Minor < b.Minor
	}
	if a.Patch != b.Patch {
		return a.Patch < b.Patch
	}
	return a.Build < b.Build
}

func vTupleEq(a, b *Version) bool {
	return a.Major == b.Major && a.Minor == b.Minor && a.Patch == b.Patch && a.Build == b.Build
}

func vB2I(b bool) int {
	if b {
		return 1
	}
	return 0
}

// H_C18_order: for all a, b (four 64-bit ints each, no bound): exactly one of
// Lower/Equal/Higher; Higher(a,b) <=> Lower(b,a); all agree with the spec.
func H_C18_order() {
	a, b := vVersion("a"), vVersion("b")
	lo, eq, hi := a.Lower(b), a.Equal(b), a.Higher(b)
	assert(vB2I(lo)+vB2I(eq)+vB2I(hi) == 1, "trichotomy")
	assert(hi == b.Lower(a), "higher-is-converse-of-lower")
	assert(lo == b.Higher(a), "lower-is-converse-of-higher")
	assert(eq == b.Equal(a), "equal-symmetric")
	assert(eq == vTupleEq(a, b), "equal-is-tuple-equality")
	assert(lo == vLexLess(a, b), "lower-is-lexicographic")
	assert(hi == vLexLess(b, a), "higher-is-lexicographic")
	if lo {
		cover("lower")
	}
	if eq {
		cover("equal")
	}
	if hi {
		cover("higher")
	}
}

// H_C18_trans: transitivity of Lower and of Higher on arbitrary triples.
func H_C18_trans() {
	a, b, c := vVersion("a"), vVersion("b"), vVersion("c")
	if a.Lower(b) && b.Lower(c) {
		cover("chain-lower")
		assert(a.Lower(c), "lower-transitive")
		assert(!c.Lower(a), "lower-antisymmetric")
	}
	if a.Higher(b) && b.Higher(c) {
		cover("chain-higher")
		assert(a.Higher(c), "higher-transitive")
	}
	if a.Equal(b) && b.Equal(c) {
		assert(a.Equal(c), "equal-transitive")
	}
	if a.Equal(b) {
		assert(a.Lower(c) == b.Lower(c), "equal-congruent-lower")
		assert(a.Higher(c) == b.Higher(c), "equal-congruent-higher")
	}
}
