package couchbase

// The scripted Couchbase server: harness-side replacements for the gocbcore
// entry points go-dcp calls. The engine redirects every call of
// (*gocbcore.Agent).X / (*gocbcore.DCPAgent).X / (gocbcore.ConfigSnapshot).X to
// stub__gocbcore_<Recv>_<X> below. Each operation answers through vG's
// handler for it; *when* the callback runs is vG.timing's choice:
//   0 inline, before the call returns      1 by an environment thread (races with the waiter)
//   2 by an environment thread after 3h of virtual time (after any deadline)
//   3 never                                4 the call itself returns an error
// These stubs exist only under the engine; natively gocbcore needs a server.

import (
	"errors"
	"time"

	"github.com/couchbase/gocbcore/v10"
	"github.com/couchbase/gocbcore/v10/memd"
)

type vPendingOp struct {
	name      string
	cancelled bool
	delivered bool
	timedOut  bool // failed by gocbcore itself at its Deadline option
}

func (o *vPendingOp) Cancel() { o.cancelled = true }

type vOpenStreamCall struct {
	vbID                                  uint16
	flags                                 memd.DcpStreamAddFlag
	vbUUID                                gocbcore.VbUUID
	start, end, snapStart, snapEnd        gocbcore.SeqNo
	observer                              gocbcore.StreamObserver
	opts                                  gocbcore.OpenStreamOptions
}

type vKVCall struct {
	op       string
	key      string
	value    []byte
	path     string
	cas      gocbcore.Cas
	expiry   uint32
	flags    uint32
	deadline time.Time
}

type vGocb struct {
	collections bool
	timing      func(op string) int
	ops         []*vPendingOp

	openStreamCalls []vOpenStreamCall
	openStream      func(c vOpenStreamCall) ([]gocbcore.FailoverEntry, error)
	closeStreamCalls []uint16
	closeStream     func(vbID uint16) error
	failoverLog     func(vbID uint16) ([]gocbcore.FailoverEntry, error)
	seqnos          func(serverIdx int, opts gocbcore.GetVbucketSeqnoOptions) ([]gocbcore.VbSeqNoEntry, error)
	seqnoCalls      int
	kvCalls         []vKVCall
	kv              func(c vKVCall) ([]byte, gocbcore.Cas, error) // value (lookups/gets), cas, error
	ping            func() (*gocbcore.PingResult, error)
	pingCalls       int
	observeVb       func(o gocbcore.ObserveVbOptions) (*gocbcore.ObserveVbResult, error)
	observeCalls    []gocbcore.ObserveVbOptions
	collectionID    func(scope, coll string) (uint32, error)
	numServers      int
	numReplicas     int
	numVbuckets     int
	bucketUUID      string
	vbToServer      func(vbID uint16, replica uint32) (int, error)
	snapshotErr     error
	honourDeadline  bool // model gocbcore's Deadline option (see completeDL)
}

var vG *vGocb

var vErrImmediate = errors.New("gocbcore: operation could not be dispatched")

func vNewGocb() *vGocb {
	vG = &vGocb{numServers: 1, numVbuckets: 4, bucketUUID: "bucket-uuid"}
	return vG
}

// completeDL: like complete, for an operation that carries gocbcore's own Deadline
// option. With honourDeadline set the scripted server follows gocbcore's contract
// for that option: an operation still unanswered at its Deadline is failed by
// gocbcore itself (the callback runs once, with a timeout error), and a reply
// that would come later is dropped.
func (g *vGocb) completeDL(name string, deadline time.Time, deliver func(), timeout func()) (gocbcore.PendingOp, error) {
	if !g.honourDeadline || deadline.IsZero() {
		return g.complete(name, deliver)
	}
	t := 0
	if g.timing != nil {
		t = g.timing(name)
	}
	if t != 2 && t != 3 {
		return g.complete(name, deliver)
	}
	op := &vPendingOp{name: name}
	g.ops = append(g.ops, op)
	spawnEnv(func() {
		if d := time.Until(deadline); d > 0 {
			time.Sleep(d)
		}
		op.delivered = true
		op.timedOut = true
		timeout()
	})
	return op, nil
}

func (g *vGocb) complete(name string, deliver func()) (gocbcore.PendingOp, error) {
	op := &vPendingOp{name: name}
	t := 0
	if g.timing != nil {
		t = g.timing(name)
	}
	if t == 4 {
		return nil, vErrImmediate
	}
	g.ops = append(g.ops, op)
	run := func() {
		op.delivered = true
		deliver()
	}
	switch t {
	case 0:
		run()
	case 1:
		spawnEnv(run)
	case 2:
		spawnEnv(func() {
			time.Sleep(3 * time.Hour)
			run()
		})
	case 3:
	}
	return op, nil
}

// ---- DCP agent ----

func stub__gocbcore_DCPAgent_HasCollectionsSupport(agent *gocbcore.DCPAgent) bool {
	return vG.collections
}

func stub__gocbcore_DCPAgent_ConfigSnapshot(agent *gocbcore.DCPAgent) (*gocbcore.ConfigSnapshot, error) {
	if vG.snapshotErr != nil {
		return nil, vG.snapshotErr
	}
	return new(gocbcore.ConfigSnapshot), nil
}

func stub__gocbcore_Agent_ConfigSnapshot(agent *gocbcore.Agent) (*gocbcore.ConfigSnapshot, error) {
	if vG.snapshotErr != nil {
		return nil, vG.snapshotErr
	}
	return new(gocbcore.ConfigSnapshot), nil
}

func stub__gocbcore_DCPAgent_OpenStream(agent *gocbcore.DCPAgent, vbID uint16, flags memd.DcpStreamAddFlag, vbUUID gocbcore.VbUUID, startSeqNo,
	endSeqNo, snapStartSeqNo, snapEndSeqNo gocbcore.SeqNo, evtHandler gocbcore.StreamObserver, opts gocbcore.OpenStreamOptions,
	cb gocbcore.OpenStreamCallback) (gocbcore.PendingOp, error) {
	c := vOpenStreamCall{vbID, flags, vbUUID, startSeqNo, endSeqNo, snapStartSeqNo, snapEndSeqNo, evtHandler, opts}
	vG.openStreamCalls = append(vG.openStreamCalls, c)
	return vG.complete("OpenStream", func() {
		logs, err := vG.openStream(c)
		cb(logs, err)
	})
}

func stub__gocbcore_DCPAgent_CloseStream(agent *gocbcore.DCPAgent, vbID uint16, opts gocbcore.CloseStreamOptions, cb gocbcore.CloseStreamCallback) (gocbcore.PendingOp, error) {
	vG.closeStreamCalls = append(vG.closeStreamCalls, vbID)
	return vG.complete("CloseStream", func() {
		var err error
		if vG.closeStream != nil {
			err = vG.closeStream(vbID)
		}
		cb(err)
	})
}

func stub__gocbcore_DCPAgent_GetFailoverLog(agent *gocbcore.DCPAgent, vbID uint16, cb gocbcore.GetFailoverLogCallback) (gocbcore.PendingOp, error) {
	return vG.complete("GetFailoverLog", func() {
		logs, err := vG.failoverLog(vbID)
		cb(logs, err)
	})
}

func stub__gocbcore_DCPAgent_GetVbucketSeqnos(agent *gocbcore.DCPAgent, serverIdx int, state memd.VbucketState, opts gocbcore.GetVbucketSeqnoOptions,
	cb gocbcore.GetVBucketSeqnosCallback) (gocbcore.PendingOp, error) {
	vG.seqnoCalls++
	return vG.complete("GetVbucketSeqnos", func() {
		entries, err := vG.seqnos(serverIdx, opts)
		cb(entries, err)
	})
}

// ---- KV agent ----

func (g *vGocb) kvOp(c vKVCall, done func(val []byte, cas gocbcore.Cas, err error)) (gocbcore.PendingOp, error) {
	g.kvCalls = append(g.kvCalls, c)
	return g.completeDL(c.op, c.deadline, func() {
		var val []byte
		var cas gocbcore.Cas
		var err error
		if g.kv != nil {
			val, cas, err = g.kv(c)
		}
		done(val, cas, err)
	}, func() { done(nil, 0, gocbcore.ErrTimeout) })
}

func stub__gocbcore_Agent_MutateIn(agent *gocbcore.Agent, opts gocbcore.MutateInOptions, cb gocbcore.MutateInCallback) (gocbcore.PendingOp, error) {
	c := vKVCall{op: "MutateIn", key: string(opts.Key), cas: opts.Cas, expiry: opts.Expiry, deadline: opts.Deadline}
	if len(opts.Ops) > 0 {
		c.value, c.path = opts.Ops[0].Value, opts.Ops[0].Path
		if opts.Ops[0].Op == memd.SubDocOpSetDoc {
			c.op = "SetDoc"
		}
	}
	if opts.Flags&memd.SubdocDocFlagMkDoc != 0 {
		c.op = "MkDocDictSet"
	}
	return vG.kvOp(c, func(_ []byte, cas gocbcore.Cas, err error) {
		if err != nil {
			cb(nil, err)
			return
		}
		cb(&gocbcore.MutateInResult{Cas: cas}, nil)
	})
}

func stub__gocbcore_Agent_LookupIn(agent *gocbcore.Agent, opts gocbcore.LookupInOptions, cb gocbcore.LookupInCallback) (gocbcore.PendingOp, error) {
	c := vKVCall{op: "LookupIn", key: string(opts.Key), deadline: opts.Deadline}
	if len(opts.Ops) > 0 {
		c.path = opts.Ops[0].Path
	}
	return vG.kvOp(c, func(val []byte, cas gocbcore.Cas, err error) {
		if err != nil {
			cb(nil, err)
			return
		}
		cb(&gocbcore.LookupInResult{Cas: cas, Ops: []gocbcore.SubDocResult{{Value: val}}}, nil)
	})
}

func stub__gocbcore_Agent_Get(agent *gocbcore.Agent, opts gocbcore.GetOptions, cb gocbcore.GetCallback) (gocbcore.PendingOp, error) {
	c := vKVCall{op: "Get", key: string(opts.Key), deadline: opts.Deadline}
	return vG.kvOp(c, func(val []byte, cas gocbcore.Cas, err error) {
		if err != nil {
			cb(nil, err)
			return
		}
		cb(&gocbcore.GetResult{Value: val, Cas: cas}, nil)
	})
}

func stub__gocbcore_Agent_Set(agent *gocbcore.Agent, opts gocbcore.SetOptions, cb gocbcore.StoreCallback) (gocbcore.PendingOp, error) {
	c := vKVCall{op: "Set", key: string(opts.Key), value: opts.Value, expiry: opts.Expiry, flags: opts.Flags, deadline: opts.Deadline}
	return vG.kvOp(c, func(_ []byte, cas gocbcore.Cas, err error) {
		if err != nil {
			cb(nil, err)
			return
		}
		cb(&gocbcore.StoreResult{Cas: cas}, nil)
	})
}

func stub__gocbcore_Agent_Delete(agent *gocbcore.Agent, opts gocbcore.DeleteOptions, cb gocbcore.DeleteCallback) (gocbcore.PendingOp, error) {
	c := vKVCall{op: "Delete", key: string(opts.Key), deadline: opts.Deadline}
	return vG.kvOp(c, func(_ []byte, cas gocbcore.Cas, err error) {
		if err != nil {
			cb(nil, err)
			return
		}
		cb(&gocbcore.DeleteResult{Cas: cas}, nil)
	})
}

func stub__gocbcore_Agent_Ping(agent *gocbcore.Agent, opts gocbcore.PingOptions, cb gocbcore.PingCallback) (gocbcore.PendingOp, error) {
	vG.pingCalls++
	return vG.complete("Ping", func() {
		res, err := vG.ping()
		cb(res, err)
	})
}

func stub__gocbcore_Agent_ObserveVb(agent *gocbcore.Agent, opts gocbcore.ObserveVbOptions, cb gocbcore.ObserveVbCallback) (gocbcore.PendingOp, error) {
	vG.observeCalls = append(vG.observeCalls, opts)
	return vG.complete("ObserveVb", func() {
		res, err := vG.observeVb(opts)
		cb(res, err)
	})
}

func stub__gocbcore_Agent_GetCollectionID(agent *gocbcore.Agent, scopeName string, collectionName string, opts gocbcore.GetCollectionIDOptions, cb gocbcore.GetCollectionIDCallback) (gocbcore.PendingOp, error) {
	return vG.complete("GetCollectionID", func() {
		id, err := vG.collectionID(scopeName, collectionName)
		if err != nil {
			cb(nil, err)
			return
		}
		cb(&gocbcore.GetCollectionIDResult{CollectionID: id}, nil)
	})
}

func stub__gocbcore_Agent_WaitForConfigSnapshot(agent *gocbcore.Agent, deadline time.Time, opts gocbcore.WaitForConfigSnapshotOptions, cb gocbcore.WaitForConfigSnapshotCallback) (gocbcore.PendingOp, error) {
	return vG.complete("WaitForConfigSnapshot", func() {
		cb(&gocbcore.WaitForConfigSnapshotResult{Snapshot: new(gocbcore.ConfigSnapshot)}, vG.snapshotErr)
	})
}

func stub__gocbcore_NewBestEffortRetryStrategy(calc gocbcore.BackoffCalculator) *gocbcore.BestEffortRetryStrategy {
	return nil
}

// ---- config snapshot ----

func stub__gocbcore_ConfigSnapshot_BucketUUID(pi gocbcore.ConfigSnapshot) string { return vG.bucketUUID }
func stub__gocbcore_ConfigSnapshot_NumServers(pi gocbcore.ConfigSnapshot) (int, error) {
	return vG.numServers, nil
}
func stub__gocbcore_ConfigSnapshot_NumReplicas(pi gocbcore.ConfigSnapshot) (int, error) {
	return vG.numReplicas, nil
}
func stub__gocbcore_ConfigSnapshot_NumVbuckets(pi gocbcore.ConfigSnapshot) (int, error) {
	return vG.numVbuckets, nil
}
func stub__gocbcore_ConfigSnapshot_VbucketToServer(pi gocbcore.ConfigSnapshot, vbID uint16, replicaIdx uint32) (int, error) {
	if vG.vbToServer != nil {
		return vG.vbToServer(vbID, replicaIdx)
	}
	return int(replicaIdx), nil
}
