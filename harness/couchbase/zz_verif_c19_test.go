package couchbase

// C19 — health checking is fail-stop after five consecutive failures, and stoppable.

import (
	"context"
	"errors"
	"time"

	"github.com/Trendyol/go-dcp/config"
	"github.com/Trendyol/go-dcp/models"
)

type vPingClient struct {
	Client
	fail     func(n int) bool // outcome of the n-th ping (0-based)
	slow     time.Duration
	pings    int
	pingedAt []int64
}

var vErrPing = errors.New("ping failed")

func (c *vPingClient) Ping() (*models.PingResult, error) {
	n := c.pings
	c.pings++
	c.pingedAt = append(c.pingedAt, nowNs())
	if c.slow > 0 {
		time.Sleep(c.slow)
	}
	if c.fail != nil && c.fail(n) {
		return nil, vErrPing
	}
	return &models.PingResult{}, nil
}

// H_C19_round: one check round under all 2^5 success/failure patterns.
func H_C19_round() {
	var pattern [5]bool
	allFail := true
	first := -1
	for i := 0; i < 5; i++ {
		pattern[i] = nondetBool("fail")
		if !pattern[i] {
			allFail = false
			if first < 0 {
				first = i
			}
		}
	}
	cl := &vPingClient{fail: func(n int) bool { return n < 5 && pattern[n] }}
	// the configured interval may be shorter than one retry wait, shorter than the
	// four retry waits of a failing round, or longer: the verdict does not depend on it
	interval := [3]time.Duration{100 * time.Millisecond, 3500 * time.Millisecond, time.Minute}[choose("interval", 3)]
	hc := NewHealthCheck(&config.HealthCheck{Interval: interval, Timeout: time.Second}, cl).(*healthCheck)
	t0 := nowNs()
	p, _ := expectPanic(func() { hc.performHealthCheck(context.Background()) })
	assert(p == allFail, "the process is terminated exactly when five consecutive pings fail")
	if allFail {
		cover("fail-stop")
		assert(cl.pings == 5, "five attempts before giving up")
	} else {
		cover("recovered")
		assert(cl.pings == first+1, "a success ends the round at once")
		assert(nowNs()-t0 == int64(first)*int64(time.Second), "one second between attempts")
	}
}

// H_C19_stop: Stop() arrives at an arbitrary moment of a running checker
// (before the first tick, between ticks, inside a failing round's retry wait,
// inside a slow Ping); it must return, and no Ping may follow.
func H_C19_stop() {
	interval := 10 * time.Second
	cl := &vPingClient{}
	failing := nondetBool("failing")
	cl.fail = func(int) bool { return failing }
	if nondetBool("slowPing") {
		cl.slow = 300 * time.Millisecond
	}
	hc := NewHealthCheck(&config.HealthCheck{Interval: interval, Timeout: time.Second}, cl)
	allowCrash(true) // the fail-stop itself may fire before Stop is called
	hc.Start()
	if nondetBool("startTwice") {
		hc.Start()
	}
	delays := []time.Duration{0, interval - 1, interval, interval + 100*time.Millisecond, interval + 1500*time.Millisecond, interval + 3*time.Second, 2*interval + 2200*time.Millisecond}
	time.Sleep(delays[choose("stopAt", len(delays))])
	t0 := nowNs()
	hc.Stop()
	assert(nowNs()-t0 <= int64(300*time.Millisecond), "Stop returns promptly: it waits at most for a ping already in flight, never for a retry wait")
	allowCrash(false)
	cover("stopped")
	n := cl.pings
	if nondetBool("stopTwice") {
		hc.Stop()
	}
	quiesce()
	assert(cl.pings == n, "no ping is issued after Stop has returned")
	assert(blockedThreads() == 0, "the checker goroutine is gone")
	if failing && n > 0 {
		cover("stopped-mid-round")
	}
}

// H_C19_order: Stop without Start returns; Start after Stop does not revive the checker.
func H_C19_order() {
	cl := &vPingClient{}
	hc := NewHealthCheck(&config.HealthCheck{Interval: time.Second, Timeout: time.Second}, cl)
	if nondetBool("neverStarted") {
		hc.Stop()
		hc.Stop()
		cover("stop-without-start")
		return
	}
	hc.Start()
	time.Sleep(2500 * time.Millisecond)
	hc.Stop()
	n := cl.pings
	assert(n >= 1, "the checker was pinging")
	hc.Start()
	hc.Start()
	quiesce()
	assert(cl.pings == n, "Start after Stop does not resume pinging")
	assert(blockedThreads() == 0, "no goroutine left")
	cover("order")
}

// H_C19_rounds: R consecutive rounds on one checker, each with an arbitrary
// success/failure pattern: the process is terminated in a round exactly when
// that round's five pings all fail; failures of earlier rounds do not count.
func H_C19_rounds() {
	R := 2
	if tierThorough() {
		R = 4
	}
	cl := &vPingClient{}
	hc := NewHealthCheck(&config.HealthCheck{Interval: time.Minute, Timeout: time.Second}, cl).(*healthCheck)
	for r := 0; r < R; r++ {
		var pattern [5]bool
		allFail := true
		for i := 0; i < 5; i++ {
			pattern[i] = nondetBool("fail")
			if !pattern[i] {
				allFail = false
			}
		}
		base := cl.pings
		cl.fail = func(n int) bool { return n-base < 5 && pattern[n-base] }
		p, _ := expectPanic(func() { hc.performHealthCheck(context.Background()) })
		assert(p == allFail, "a round terminates the process exactly when its own five pings all fail")
		if p {
			cover("fail-stop-in-later-round")
			return
		}
	}
	cover("rounds-survived")
}
