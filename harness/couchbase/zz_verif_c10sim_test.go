package couchbase

// C10 (simulation): up to three real cbMembership instances over one shared
// key-value store (documents as tokens, CAS, TTL on the virtual clock), driven
// at monitor-round granularity through an arbitrary history of joins, silent
// deaths, heartbeats, monitor rounds and clock advances.

import (
	"time"

	"github.com/Trendyol/go-dcp/membership"
	"github.com/couchbase/gocbcore/v10"
)

type vKVDoc struct {
	tok       interface{}
	cas       gocbcore.Cas
	writtenAt int64
	expiry    uint32
}

type vKVStore struct {
	docs    map[string]*vKVDoc
	nextCas gocbcore.Cas
}

func (s *vKVStore) live(key string) *vKVDoc {
	d, ok := s.docs[key]
	if !ok {
		return nil
	}
	if d.expiry > 0 && nowNs()-d.writtenAt >= int64(d.expiry)*int64(time.Second) {
		delete(s.docs, key)
		return nil
	}
	return d
}

func (s *vKVStore) put(key string, tok interface{}, expiry uint32) gocbcore.Cas {
	s.nextCas++
	s.docs[key] = &vKVDoc{tok: tok, cas: s.nextCas, writtenAt: nowNs(), expiry: expiry}
	return s.nextCas
}

func (s *vKVStore) handle(c vKVCall) ([]byte, gocbcore.Cas, error) {
	switch c.op {
	case "Get":
		d := s.live(c.key)
		if d == nil {
			return nil, 0, vKeyNotFound()
		}
		b, _ := stub__sonic_Marshal(d.tok)
		return b, d.cas, nil
	case "Set":
		var tok interface{}
		if len(c.value) == 1 {
			tok = vTokens[c.value[0]]
		}
		return nil, s.put(c.key, tok, c.expiry), nil
	case "SetDoc":
		d := s.live(c.key)
		if d == nil {
			return nil, 0, vKeyNotFound()
		}
		if c.cas != 0 && c.cas != d.cas {
			return nil, 0, gocbcore.ErrCasMismatch
		}
		return nil, s.put(c.key, vTokens[c.value[0]], c.expiry), nil
	case "MkDocDictSet":
		m := map[string]int64{}
		if d := s.live(c.key); d != nil {
			for k, v := range d.tok.(map[string]int64) {
				m[k] = v
			}
		}
		m[c.path] = vTokens[c.value[0]].(int64)
		return nil, s.put(c.key, m, 0), nil
	}
	return nil, 0, vErrServer
}

type vMember struct {
	h     *cbMembership
	bus   *vMemberBus
	alive bool
	joinT int64
}

func vJoin(name string) *vMember {
	cfg := vMembershipConfig()
	bus := &vMemberBus{}
	h := &cbMembership{
		infoChan:         make(chan *membership.Model),
		client:           &client{config: cfg},
		id:               []byte("_connector:cbgo:grp:instance:" + name),
		instanceAll:      []byte("_connector:cbgo:grp:instance:all"),
		bus:              bus,
		scopeName:        "_default",
		collectionName:   "_default",
		membershipConfig: cfg.GetCouchbaseMembership(),
		config:           cfg,
	}
	bus.onPublish = h.membershipChangedListener
	h.register()
	return &vMember{h: h, bus: bus, alive: true, joinT: h.clusterJoinTime}
}

func H_C10_sim() {
	setMerge(true)
	setPreempt(0)
	freezeSchedule() // the document reads inside one monitor round write disjoint slots: one order is enough
	K := 5
	if tierThorough() {
		K = 7
	}
	g := vNewGocb()
	kv := &vKVStore{docs: map[string]*vKVDoc{}}
	g.kv = kv.handle
	names := []string{"a", "b", "c"}
	var ms []*vMember
	ms = append(ms, vJoin(names[0]))
	for st := 0; st < K; st++ {
		time.Sleep(time.Millisecond) // distinct instants
		switch choose("event", 5) {
		case 0:
			assume(len(ms) < 3)
			cover("join")
			ms = append(ms, vJoin(names[len(ms)]))
		case 1:
			i := choose("who", len(ms))
			assume(ms[i].alive)
			ms[i].h.heartbeat()
		case 2:
			i := choose("who", len(ms))
			assume(ms[i].alive)
			cover("monitor")
			ms[i].h.heartbeat() // a live instance heartbeats far more often than it monitors
			ms[i].h.monitor()
		case 3:
			i := choose("who", len(ms))
			assume(ms[i].alive)
			nlive := 0
			for _, m := range ms {
				if m.alive {
					nlive++
				}
			}
			assume(nlive > 1)
			cover("death")
			ms[i].alive = false // silent death (or graceful stop: heartbeats cease either way)
		case 4:
			cover("time-passes")
			for _, m := range ms {
				if m.alive {
					m.h.heartbeat()
				}
			}
			time.Sleep(40 * time.Second)
		}
	}
	// quiescent period: live instances keep heart-beating while >70 s pass, then each runs monitor rounds
	for r := 0; r < 2; r++ {
		for _, m := range ms {
			if m.alive {
				m.h.heartbeat()
			}
		}
		time.Sleep(40 * time.Second)
	}
	for _, m := range ms {
		if m.alive {
			m.h.heartbeat()
		}
	}
	for round := 0; round < 2; round++ {
		for _, m := range ms {
			if m.alive {
				m.h.monitor()
			}
		}
	}
	nlive := 0
	for _, m := range ms {
		if m.alive {
			nlive++
		}
	}
	pubs := 0
	for _, m := range ms {
		pubs += len(m.bus.published)
	}
	// agreement, collision-freedom, join order
	for _, m := range ms {
		if !m.alive {
			continue
		}
		assert(m.h.info != nil, "every live instance has a numbering")
		assert(m.h.info.TotalMembers == nlive, "all live instances agree on the group size = number of live instances (dead ones dropped within two rounds)")
		rank := 1
		for _, o := range ms {
			if o.alive && o.joinT < m.joinT {
				rank++
			}
		}
		assert(m.h.info.MemberNumber == rank, "member numbers are 1..size in join order (pairwise distinct)")
		last := m.bus.published[len(m.bus.published)-1]
		assert(last.MemberNumber == m.h.info.MemberNumber && last.TotalMembers == m.h.info.TotalMembers, "the numbering in effect is the one last announced")
	}
	// one more round: stable group, nothing announced
	for _, m := range ms {
		if m.alive {
			m.h.monitor()
		}
	}
	pubs2 := 0
	for _, m := range ms {
		pubs2 += len(m.bus.published)
	}
	assert(pubs2 == pubs, "a stable group announces nothing further")
	cover("stable")
}
