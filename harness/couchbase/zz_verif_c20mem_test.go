package couchbase

// C20 (membership documents): the couchbase membership's heart-beat write and
// monitor round against a server that answers promptly, refuses, answers after
// the deadline, stays silent or drops the request.

import (
	"time"

	"github.com/couchbase/gocbcore/v10"
)

// H_C20_membership: one registered instance; then a heart-beat and a monitor
// round whose first three operations each get an arbitrary server behaviour.
// Every call returns within the membership timeout (10 s) on the virtual
// clock - or, where the code treats a failed instance read as fatal, the
// process terminates by then -, the pending operation is cancelled when the
// deadline wins, and no goroutine stays blocked once late replies have arrived.
func H_C20_membership() {
	setMerge(true)
	g := vNewGocb()
	kv := &vKVStore{docs: map[string]*vKVDoc{}}
	refuse := -1
	n := 0
	g.kv = func(c vKVCall) ([]byte, gocbcore.Cas, error) {
		return kv.handle(c)
	}
	m := vJoin("a") // registration with a prompt server
	timeout := int64(m.h.membershipConfig.Timeout)
	var tim [3]int
	for i := range tim {
		tim[i] = choose("timing", 5)
	}
	refuse = choose("refused-op", 4) - 1
	base := len(g.ops)
	g.timing = func(string) int {
		i := n
		n++
		if i < 3 {
			return tim[i]
		}
		return 0
	}
	g.kv = func(c vKVCall) ([]byte, gocbcore.Cas, error) {
		if len(g.ops)-base-1 == refuse {
			return nil, 0, vErrServer
		}
		return kv.handle(c)
	}
	// start-up waits for the first membership info (vBucketDiscovery.Get inside stream.Open)
	gotInfo := false
	spawnEnv(func() {
		m.h.GetInfo()
		gotInfo = true
	})
	for blockedThreads() < 1 { // it is waiting on the info channel before the first monitor round, as in a real start-up
		time.Sleep(time.Millisecond)
	}
	t0 := nowNs()
	m.h.heartbeat()
	assert(nowNs()-t0 <= timeout, "the heart-beat write returns within the membership timeout")
	cover("heartbeat-returned")
	// the monitor round: index read, one instance read, possibly an index update
	allowCrash(true) // a failed instance read is fatal by design; a hang is not allowed
	t1 := nowNs()
	m.h.monitor()
	assert(nowNs()-t1 <= 2*timeout, "the monitor round returns within its deadline (one retry on a CAS conflict)")
	cover("monitor-returned")
	for _, op := range g.ops[base:] {
		if !op.delivered && !op.timedOut {
			// the wrapper gave up on this operation: it must have cancelled it (unless it was never dispatched)
			assert(op.cancelled, "an operation abandoned at the deadline is cancelled")
		}
	}
	quiesce()
	waiting := 0
	if !gotInfo {
		waiting = 1 // start-up is still waiting for a first successful monitor round: not a blocked library goroutine
	}
	assert(blockedThreads() == waiting, "late replies leave nothing blocked")
}
