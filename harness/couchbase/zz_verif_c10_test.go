package couchbase

// C10 (couchbase heart-beat membership): numbering from the live-instance list.

import (
	"time"

	"github.com/Trendyol/go-dcp/config"
	"github.com/Trendyol/go-dcp/membership"
)

type vMemberBus struct {
	published []*membership.Model
	onPublish func(*membership.Model)
}

func (b *vMemberBus) Subscribe(string, interface{}) error            { return nil }
func (b *vMemberBus) SubscribeAsync(string, interface{}, bool) error { return nil }
func (b *vMemberBus) SubscribeOnce(string, interface{}) error        { return nil }
func (b *vMemberBus) SubscribeOnceAsync(string, interface{}) error   { return nil }
func (b *vMemberBus) Unsubscribe(string, interface{}) error          { return nil }
func (b *vMemberBus) Publish(_ string, args ...interface{}) {
	m := args[0].(*membership.Model)
	b.published = append(b.published, m)
	if b.onPublish != nil {
		b.onPublish(m)
	}
}
func (b *vMemberBus) HasCallback(string) bool { return false }
func (b *vMemberBus) WaitAsync()              {}

func vMembershipConfig() *config.Dcp {
	cfg := &config.Dcp{}
	cfg.Metadata.Type = "couchbase"
	cfg.Dcp.Group.Name = "grp"
	cfg.Dcp.Group.Membership.RebalanceDelay = time.Second
	return cfg
}

// H_C10_cbrebalance: an arbitrary live-instance list of 1..8 distinct ids
// containing self at an arbitrary place, an arbitrary numbering in effect.
func H_C10_cbrebalance() {
	setMerge(true)
	n := 1 + choose("instances", 8)
	self := choose("self", n)
	ids := []string{"_connector:cbgo:grp:instance:a", "_connector:cbgo:grp:instance:b", "_connector:cbgo:grp:instance:c", "_connector:cbgo:grp:instance:d",
		"_connector:cbgo:grp:instance:e", "_connector:cbgo:grp:instance:f", "_connector:cbgo:grp:instance:g", "_connector:cbgo:grp:instance:h"}
	bus := &vMemberBus{}
	h := &cbMembership{bus: bus, id: []byte(ids[self]), membershipConfig: vMembershipConfig().GetCouchbaseMembership()}
	if nondetBool("hasInfo") {
		h.info = &membership.Model{MemberNumber: nondetInt("cur.n"), TotalMembers: nondetInt("cur.t")}
	}
	prev := h.info
	inst := make([]Instance, n)
	for i := 0; i < n; i++ {
		id := ids[i]
		inst[i] = Instance{ID: &id, ClusterJoinTime: int64(i)}
	}
	h.rebalance(inst)
	changed := prev == nil || prev.MemberNumber != self+1 || prev.TotalMembers != n
	if changed {
		cover("announced")
		assert(len(bus.published) == 1 && bus.published[0].MemberNumber == self+1 && bus.published[0].TotalMembers == n,
			"member number = position in join order, group size = number of live instances")
	} else {
		cover("unchanged")
		assert(len(bus.published) == 0, "a numbering equal to the one in effect is not announced")
	}
	assert(len(h.lastActiveInstances) == n, "live set remembered")
	// self missing from the live list is fatal
	h2 := &cbMembership{bus: bus, id: []byte("_connector:cbgo:grp:instance:zz")}
	p, _ := expectPanic(func() { h2.rebalance(inst) })
	assert(p, "an instance that cannot find itself stops")
}

// H_C10_alive: the liveness threshold.
func H_C10_alive() {
	cfg := vMembershipConfig()
	h := &cbMembership{membershipConfig: cfg.GetCouchbaseMembership()}
	time.Sleep(500 * time.Second)
	now := time.Now().UnixNano()
	hb := nondetI64("heartbeat")
	assume(hb <= now && hb >= 0)
	limit := int64(70 * time.Second) // interval 10s + tolerance 60s
	assert(h.isAlive(hb) == (now-hb < limit), "an instance is alive iff its last heartbeat is younger than interval + tolerance")
	if now-hb < limit {
		cover("alive")
	} else {
		cover("dead")
	}
}
