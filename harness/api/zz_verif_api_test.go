package api

// The HTTP handlers of the library's API (the fiber context is recorded, not
// executed): /states/offset and /status (C16), /rebalance (C11),
// /membership/info (C10), /states/followers.

import (
	"errors"

	"github.com/Trendyol/go-dcp/couchbase"
	"github.com/Trendyol/go-dcp/membership"
	"github.com/Trendyol/go-dcp/models"
	"github.com/Trendyol/go-dcp/servicediscovery"
	"github.com/Trendyol/go-dcp/stream"
	"github.com/Trendyol/go-dcp/wrapper"
	"github.com/gofiber/fiber/v2"
)

// ---- the fiber context, recorded ----

type vReply struct {
	json     []interface{}
	strings  []string
	statuses []int
}

var vR *vReply
var vBody struct {
	err    error
	member int
	total  int
}

func stub__fiber_Ctx_JSON(c *fiber.Ctx, data interface{}, ctype ...string) error {
	vR.json = append(vR.json, data)
	return nil
}
func stub__fiber_Ctx_SendString(c *fiber.Ctx, body string) error {
	vR.strings = append(vR.strings, body)
	return nil
}
func stub__fiber_Ctx_Status(c *fiber.Ctx, status int) *fiber.Ctx {
	vR.statuses = append(vR.statuses, status)
	return c
}
func stub__fiber_Ctx_BodyParser(c *fiber.Ctx, out interface{}) error {
	if vBody.err != nil {
		return vBody.err
	}
	req := out.(*models.SetInfoRequest)
	req.MemberNumber, req.TotalMembers = vBody.member, vBody.total
	return nil
}

// ---- fakes of the library's own interfaces ----

type vStream struct {
	stream.Stream
	open       bool
	offsets    *wrapper.ConcurrentSwissMap[uint16, *models.Offset]
	offsetsGot int
	rebalances int
}

func (s *vStream) IsOpen() bool { return s.open }
func (s *vStream) Rebalance()   { s.rebalances++ }
func (s *vStream) GetOffsets() (*wrapper.ConcurrentSwissMap[uint16, *models.Offset], *wrapper.ConcurrentSwissMap[uint16, bool], bool) {
	s.offsetsGot++
	return s.offsets, nil, false
}

type vClient struct {
	couchbase.Client
	pingErr error
	pings   int
}

func (c *vClient) Ping() (*models.PingResult, error) {
	c.pings++
	if c.pingErr != nil {
		return nil, c.pingErr
	}
	return &models.PingResult{}, nil
}

type vBus struct {
	published []*membership.Model
	topics    []string
}

func (b *vBus) Subscribe(string, interface{}) error            { return nil }
func (b *vBus) SubscribeAsync(string, interface{}, bool) error { return nil }
func (b *vBus) SubscribeOnce(string, interface{}) error        { return nil }
func (b *vBus) SubscribeOnceAsync(string, interface{}) error   { return nil }
func (b *vBus) Unsubscribe(string, interface{}) error          { return nil }
func (b *vBus) Publish(topic string, args ...interface{}) {
	b.topics = append(b.topics, topic)
	b.published = append(b.published, args[0].(*membership.Model))
}
func (b *vBus) HasCallback(string) bool { return false }
func (b *vBus) WaitAsync()              {}

type vSD struct {
	servicediscovery.ServiceDiscovery
	names []string
}

func (s *vSD) GetAll() []string { return s.names }

func vNewAPI() (*api, *vStream, *vClient, *vBus) {
	vR = &vReply{}
	vBody.err, vBody.member, vBody.total = nil, 0, 0
	st := &vStream{offsets: wrapper.CreateConcurrentSwissMap[uint16, *models.Offset](1024)}
	cl := &vClient{}
	bus := &vBus{}
	return &api{client: cl, stream: st, bus: bus}, st, cl, bus
}

// H_C16_api: /states/offset answers with the stream's own tracked positions
// (the very map, nothing recomputed) when the stream is open and with a plain
// message - without touching the (reset) maps, blocking or crashing - when it is
// closed; /status reports the ping result faithfully.
func H_C16_api() {
	a, st, cl, _ := vNewAPI()
	st.open = nondetBool("open")
	o := &models.Offset{SnapshotMarker: &models.SnapshotMarker{StartSeqNo: nondetU64("start"), EndSeqNo: nondetU64("end")}, SeqNo: nondetU64("seq")}
	st.offsets.Store(nondetU16("vb"), o)
	err := a.offset(nil)
	assert(err == nil, "the offset endpoint answers")
	if st.open {
		cover("offset-open")
		assert(len(vR.json) == 1 && len(vR.strings) == 0, "one JSON body")
		m, ok := vR.json[0].(*wrapper.ConcurrentSwissMap[uint16, *models.Offset])
		assert(ok && m == st.offsets, "the body is the stream's tracked positions themselves")
	} else {
		cover("offset-closed")
		assert(len(vR.json) == 0 && len(vR.strings) == 1, "a closed stream is reported as such")
		assert(st.offsetsGot == 0, "the positions of a closed stream are not read")
	}
	// /status
	vR = &vReply{}
	if nondetBool("ping-fails") {
		cl.pingErr = errors.New("bucket unreachable")
	}
	err = a.status(nil)
	assert(cl.pings == 1, "status pings the cluster once")
	if cl.pingErr != nil {
		cover("status-down")
		assert(err == cl.pingErr && len(vR.strings) == 0, "a failing ping is reported as the error, never as OK")
	} else {
		cover("status-up")
		assert(err == nil && len(vR.strings) == 1 && vR.strings[0] == "OK", "a healthy cluster answers OK")
	}
}

// H_C11_api_route: POST /rebalance triggers exactly one Rebalance() on an open
// stream and none on a closed one (a rebalance or shutdown in progress).
func H_C11_api_route() {
	a, st, _, _ := vNewAPI()
	st.open = nondetBool("open")
	err := a.rebalance(nil)
	assert(err == nil && len(vR.strings) == 1, "the endpoint answers")
	if st.open {
		cover("route-open")
		assert(st.rebalances == 1 && vR.strings[0] == "OK", "one rebalance cycle is requested")
	} else {
		cover("route-closed")
		assert(st.rebalances == 0, "no rebalance is requested while the stream is closed")
		assert(vR.strings[0] != "OK", "and the caller is told so")
	}
}

// H_C10_api_info: PUT /membership/info (how a leader tells a follower its
// number): a sequence of three requests with arbitrary (number, size) pairs
// or unparsable bodies. A membership change is announced on the bus exactly
// when the pair differs from the last accepted one, carrying exactly that
// pair; unparsable bodies are refused with 400 and change nothing.
func H_C10_api_info() {
	setMerge(true)
	a, _, _, bus := vNewAPI()
	var last *membership.Model
	for i := 0; i < 3; i++ {
		vR = &vReply{}
		before := len(bus.published)
		bad := choose("bad-body", 2) == 1
		vBody.err = nil
		if bad {
			vBody.err = errors.New("unexpected end of JSON input")
		}
		vBody.member, vBody.total = nondetInt("member"), nondetInt("total")
		err := a.info(nil)
		assert(err == nil, "the endpoint answers")
		if bad {
			cover("refused")
			assert(len(vR.statuses) == 1 && vR.statuses[0] == 400, "an unparsable body is refused with 400")
			assert(len(bus.published) == before, "and announces nothing")
			continue
		}
		changed := last == nil || last.MemberNumber != vBody.member || last.TotalMembers != vBody.total
		if changed {
			cover("announced")
			assert(len(bus.published) == before+1, "a new (number, size) pair is announced once")
			p := bus.published[before]
			assert(p.MemberNumber == vBody.member && p.TotalMembers == vBody.total, "with exactly the pair received")
			assert(bus.topics[before] == "membershipChanged", "on the membership topic")
			last = p
		} else {
			cover("unchanged")
			assert(len(bus.published) == before, "the pair already in effect is not announced again")
		}
		assert(len(vR.strings) == 1 && vR.strings[0] == "OK", "accepted")
	}
	// /states/followers
	vR = &vReply{}
	assert(a.followers(nil) == nil && len(vR.strings) == 1 && len(vR.json) == 0, "without service discovery the followers endpoint says so")
	a.serviceDiscovery = &vSD{names: []string{"f0", "f1"}}
	vR = &vReply{}
	assert(a.followers(nil) == nil && len(vR.json) == 1, "with service discovery it lists the followers")
	got := vR.json[0].([]string)
	assert(len(got) == 2 && got[0] == "f0" && got[1] == "f1", "as the discovery knows them")
}
