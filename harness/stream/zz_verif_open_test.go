package stream

// Fixture for harnesses that run the real stream.Open / Close / Rebalance:
// a full fake couchbase.Client, a fake VBucketDiscovery and a recording event
// handler. Engine-only (a usable *gocbcore.ConfigSnapshot cannot be made natively).

import (
	"github.com/Trendyol/go-dcp/config"
	"github.com/Trendyol/go-dcp/couchbase"
	"github.com/Trendyol/go-dcp/models"
	"github.com/Trendyol/go-dcp/tracing"
	"github.com/Trendyol/go-dcp/wrapper"
	"github.com/couchbase/gocbcore/v10"
)

const vTotalVB = 4

func stub__gocbcore_ConfigSnapshot_BucketUUID(pi gocbcore.ConfigSnapshot) string { return "bucket-uuid" }

type vOpenCall struct {
	vbID     uint16
	offset   *models.Offset
	vbUUID   gocbcore.VbUUID
	seq      uint64
	latest   uint64
	start    uint64
	end      uint64
	observer couchbase.Observer
	at       int64
}

type vfakeClient struct {
	couchbase.Client
	high        [vTotalVB]uint64
	failover    [vTotalVB]gocbcore.VbUUID
	seqErr      error
	foErr       func(vbID uint16) error
	snapErr     error
	openErr     func(vbID uint16, nth int) error
	openCalls   []vOpenCall
	closeCalls  []uint16
	onClose     func(vbID uint16)
	seqCalls    int
	dcpClosed   int
	closed      int
	pings       int
}

func (c *vfakeClient) GetDcpAgentConfigSnapshot() (*gocbcore.ConfigSnapshot, error) {
	if c.snapErr != nil {
		return nil, c.snapErr
	}
	return new(gocbcore.ConfigSnapshot), nil
}

func (c *vfakeClient) GetVBucketSeqNos(bool) (*wrapper.ConcurrentSwissMap[uint16, uint64], error) {
	c.seqCalls++
	if c.seqErr != nil {
		return nil, c.seqErr
	}
	m := wrapper.CreateConcurrentSwissMap[uint16, uint64](1024)
	for vb := 0; vb < vTotalVB; vb++ {
		m.Store(uint16(vb), c.high[vb])
	}
	return m, nil
}

func (c *vfakeClient) GetFailOverLogs(vbID uint16) ([]gocbcore.FailoverEntry, error) {
	if c.foErr != nil {
		if err := c.foErr(vbID); err != nil {
			return nil, err
		}
	}
	// newest branch first, then an older one (a vBucket that failed over once)
	return []gocbcore.FailoverEntry{{VbUUID: c.failover[vbID], SeqNo: 5}, {VbUUID: c.failover[vbID] ^ 0x5a5a, SeqNo: 0}}, nil
}

func (c *vfakeClient) OpenStream(vbID uint16, _ map[uint32]string, offset *models.Offset, observer couchbase.Observer) error {
	nth := 0
	for _, oc := range c.openCalls {
		if oc.vbID == vbID {
			nth++
		}
	}
	c.openCalls = append(c.openCalls, vOpenCall{vbID, offset, offset.VbUUID, offset.SeqNo, offset.LatestSeqNo, offset.StartSeqNo, offset.EndSeqNo, observer, nowNs()})
	yield()
	if c.openErr != nil {
		return c.openErr(vbID, nth)
	}
	return nil
}

func (c *vfakeClient) CloseStream(vbID uint16) error {
	c.closeCalls = append(c.closeCalls, vbID)
	yield()
	if c.onClose != nil {
		c.onClose(vbID)
	}
	return nil
}

func (c *vfakeClient) DcpClose() { c.dcpClosed++ }
func (c *vfakeClient) Close()    { c.closed++ }
func (c *vfakeClient) Ping() (*models.PingResult, error) {
	c.pings++
	return &models.PingResult{}, nil
}

type vfakeDiscovery struct {
	assigned func() []uint16
	gets     int
	closed   int
	metric   VBucketDiscoveryMetric
}

func (d *vfakeDiscovery) Get() []uint16 {
	d.gets++
	return d.assigned()
}
func (d *vfakeDiscovery) Close()                             { d.closed++ }
func (d *vfakeDiscovery) GetMetric() *VBucketDiscoveryMetric { return &d.metric }

type vCallback struct {
	name string
	at   int64
}

type vfakeHandler struct {
	log     []vCallback
	onEvent func(name string)
}

func (h *vfakeHandler) add(n string) {
	h.log = append(h.log, vCallback{n, nowNs()})
	if h.onEvent != nil {
		h.onEvent(n)
	}
}
func (h *vfakeHandler) BeforeRebalanceStart() { h.add("BRS") }
func (h *vfakeHandler) AfterRebalanceStart()  { h.add("ARS") }
func (h *vfakeHandler) BeforeRebalanceEnd()   { h.add("BRE") }
func (h *vfakeHandler) AfterRebalanceEnd()    { h.add("ARE") }
func (h *vfakeHandler) BeforeStreamStart()    { h.add("BSS") }
func (h *vfakeHandler) AfterStreamStart()     { h.add("ASS") }
func (h *vfakeHandler) BeforeStreamStop()     { h.add("BSP") }
func (h *vfakeHandler) AfterStreamStop()      { h.add("ASP") }

type vFixture struct {
	s    *stream
	cl   *vfakeClient
	fm   *vfakeMetadata
	fc   *vfakeConsumer
	disc *vfakeDiscovery
	h    *vfakeHandler
	cfg  *config.Dcp
	stop chan struct{}
}

// vNewFixture builds a stream through the real NewStream constructor.
func vNewFixture(assigned func() []uint16) *vFixture {
	fx := &vFixture{cl: &vfakeClient{}, fm: vNewFakeMetadata(), fc: &vfakeConsumer{}, h: &vfakeHandler{}, cfg: &config.Dcp{}}
	fx.cfg.RollbackMitigation.Disabled = true
	fx.disc = &vfakeDiscovery{assigned: assigned}
	fx.stop = make(chan struct{}, 1)
	st := NewStream(fx.cl, fx.fm, fx.cfg, &couchbase.Version{Major: 7, Minor: 0}, &couchbase.BucketInfo{}, fx.disc, fx.fc,
		map[uint32]string{}, fx.stop, fx.h, tracing.NewTracerComponent())
	fx.s = st.(*stream)
	return fx
}

func (fx *vFixture) openCallsFor(vb uint16) []vOpenCall {
	var out []vOpenCall
	for _, c := range fx.cl.openCalls {
		if c.vbID == vb {
			out = append(out, c)
		}
	}
	return out
}

func vDoc(tag string) *models.CheckpointDocument {
	return &models.CheckpointDocument{
		Checkpoint: &models.CheckpointDocumentCheckpoint{
			VbUUID: nondetU64(tag + ".vbuuid"),
			SeqNo:  nondetU64(tag + ".seq"),
			Snapshot: &models.CheckpointDocumentSnapshot{
				StartSeqNo: nondetU64(tag + ".start"),
				EndSeqNo:   nondetU64(tag + ".end"),
			},
		},
		BucketUUID: "bucket-uuid",
	}
}
