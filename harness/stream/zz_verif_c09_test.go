package stream

// C09 (discovery) — the vBucket ids handed to member k of T are exactly chunk k.

import (
	"github.com/Trendyol/go-dcp/config"
	"github.com/Trendyol/go-dcp/membership"
)

// H_C09_get: the real NewVBucketDiscovery/Get with static membership for
// N in {64,128,1024}, T concretized (1..Tmax), member number symbolic in 1..T.
func H_C09_get() {
	setMerge(true)
	setUnwind(1100)
	tmax := 6
	if tierThorough() {
		tmax = 16
	}
	N := []int{64, 128, 1024}[choose("N", 3)]
	T := concretize(nondetInt("T"), 1, tmax)
	k := nondetInt("member")
	assume(k >= 1 && k <= T)
	cfg := &config.Dcp{}
	cfg.Dcp.Group.Membership.Type = membership.StaticMembershipType
	cfg.Dcp.Group.Membership.TotalMembers = T
	cfg.Dcp.Group.Membership.MemberNumber = k
	d := NewVBucketDiscovery(nil, cfg, N, nil)
	ids := d.Get()
	// closed form: the first N%T chunks have ceil(N/T) elements
	base, extra := N/T, N%T
	start := (k-1)*base + vMinInt(k-1, extra)
	size := base
	if k-1 < extra {
		size++
	}
	assert(len(ids) == size, "chunk size is floor or ceil of N/T, larger chunks first")
	assert(int(ids[0]) == start && int(ids[len(ids)-1]) == start+size-1, "member k owns the k-th contiguous range")
	m := d.GetMetric()
	assert(int(m.VBucketRangeStart) == start && int(m.VBucketRangeEnd) == start+size-1 && m.MemberNumber == k && m.TotalMembers == T && m.VBucketCount == N,
		"range / member figures exposed for metrics are the ones in effect")
	cover("get")
	// a rebalance that keeps the group size but moves this member: the exposed figures follow
	k2 := nondetInt("member2")
	assume(k2 >= 1 && k2 <= T)
	d.(*vBucketDiscovery).membership = &vFixedMembership{info: &membership.Model{MemberNumber: k2, TotalMembers: T}}
	ids2 := d.Get()
	start2 := (k2-1)*base + vMinInt(k2-1, extra)
	size2 := base
	if k2-1 < extra {
		size2++
	}
	assert(len(ids2) == size2 && int(ids2[0]) == start2, "after the move member k2 owns the k2-th range")
	m2 := d.GetMetric()
	assert(m2.MemberNumber == k2 && m2.TotalMembers == T && int(m2.VBucketRangeStart) == start2 && int(m2.VBucketRangeEnd) == start2+size2-1,
		"member number / range figures follow a rebalance that keeps the group size")
}

type vFixedMembership struct{ info *membership.Model }

func (f *vFixedMembership) GetInfo() *membership.Model { return f.info }
func (f *vFixedMembership) Close()                     {}

func vMinInt(a, b int) int {
	if a < b {
		return a
	}
	return b
}
