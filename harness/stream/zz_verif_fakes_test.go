package stream

// Fakes of go-dcp's own interfaces for the stream-level harnesses. They are
// plain Go: the engine interprets them symbolically, native replay runs them
// as they are.

import (
	"sync"

	"github.com/Trendyol/go-dcp/config"
	"github.com/Trendyol/go-dcp/couchbase"
	"github.com/Trendyol/go-dcp/stream/offset"
	"github.com/Trendyol/go-dcp/models"
	"github.com/Trendyol/go-dcp/tracing"
	"github.com/Trendyol/go-dcp/wrapper"
	"github.com/couchbase/gocbcore/v10"
)

type vTracked struct {
	vbID   uint16
	offset *models.Offset
}

// vfakeConsumer records everything the library hands to the application.
type vfakeConsumer struct {
	tracked   []vTracked
	consumed  []*models.ListenerContext
	onConsume func(ctx *models.ListenerContext)
}

func (c *vfakeConsumer) ConsumeEvent(ctx *models.ListenerContext) {
	c.consumed = append(c.consumed, ctx)
	if c.onConsume != nil {
		c.onConsume(ctx)
	}
}

func (c *vfakeConsumer) TrackOffset(vbID uint16, offset *models.Offset) {
	c.tracked = append(c.tracked, vTracked{vbID, offset})
}

type vSaveCall struct {
	state map[uint16]*models.CheckpointDocument
	dirty map[uint16]bool
}

// vfakeMetadata is the durable store. Save answers per call from `answers`
// (true = success) and, like the couchbase backend, writes only vBuckets
// flagged dirty in the call. writeMask (if non-nil) restricts which of the
// dirty per-vBucket writes of a call become durable (crash part-way).
type vfakeMetadata struct {
	store     map[uint16]*models.CheckpointDocument
	calls     []vSaveCall
	failNext  func() bool
	writeMask func(vbID uint16) bool
	onSave    func()
	loadErr   error
	wholeState bool // like the file backend: every save replaces the whole stored state with the state handed in
	loadSkip  func(vbID uint16) bool // Load leaves these vBuckets out of its result (e.g. a file written for a narrower assignment)
}

type vStoreErr struct{}

func (vStoreErr) Error() string { return "metadata store rejected the save" }

func (f *vfakeMetadata) Save(state map[uint16]*models.CheckpointDocument, dirty map[uint16]bool, _ string) error {
	f.calls = append(f.calls, vSaveCall{state, dirty})
	if f.onSave != nil {
		f.onSave()
	}
	if f.failNext != nil && f.failNext() {
		return vStoreErr{}
	}
	if f.wholeState {
		f.store = map[uint16]*models.CheckpointDocument{}
		for vbID, doc := range state {
			f.store[vbID] = doc
		}
		return nil
	}
	for vbID, doc := range state {
		if dirty[vbID] && (f.writeMask == nil || f.writeMask(vbID)) {
			f.store[vbID] = doc
		}
	}
	return nil
}

func (f *vfakeMetadata) Load(vbIds []uint16, bucketUUID string) (*wrapper.ConcurrentSwissMap[uint16, *models.CheckpointDocument], bool, error) {
	if f.loadErr != nil {
		return nil, false, f.loadErr
	}
	state := wrapper.CreateConcurrentSwissMap[uint16, *models.CheckpointDocument](1024)
	exist := false
	for _, vbID := range vbIds {
		if f.loadSkip != nil && f.loadSkip(vbID) {
			continue
		}
		if doc, ok := f.store[vbID]; ok {
			state.Store(vbID, doc)
			exist = true
		} else {
			state.Store(vbID, models.NewEmptyCheckpointDocument(bucketUUID))
		}
	}
	return state, exist, nil
}

func (f *vfakeMetadata) Clear(vbIds []uint16) error { return nil }

func vNewFakeMetadata() *vfakeMetadata {
	return &vfakeMetadata{store: map[uint16]*models.CheckpointDocument{}}
}

// vNewStream builds a stream directly (no Open): rollback mitigation off,
// manual checkpointing, the given consumer and store.
func vNewStream(fc *vfakeConsumer, fm *vfakeMetadata) *stream {
	cfg := &config.Dcp{}
	cfg.RollbackMitigation.Disabled = true
	s := &stream{
		consumer:                   fc,
		metadata:                   fm,
		config:                     cfg,
		metric:                     &Metric{},
		offsets:                    wrapper.CreateConcurrentSwissMap[uint16, *models.Offset](1024),
		dirtyOffsets:               wrapper.CreateConcurrentSwissMap[uint16, bool](1024),
		tracerComponent:            tracing.NewTracerComponent(),
		finishStreamWithCloseCh:    make(chan struct{}, 1),
		finishStreamWithEndEventCh: make(chan struct{}, 1),
		stopCh:                     make(chan struct{}, 1),
		eventHandler:               models.DefaultEventHandler,
		vbIDRange:                  &models.VbIDRange{Start: 0, End: 1023},
	}
	s.checkpoint = &checkpoint{
		stream:     s,
		metadata:   fm,
		config:     cfg,
		saveLock:   &sync.Mutex{},
		loadLock:   &sync.Mutex{},
		metric:     &CheckpointMetric{},
		bucketUUID: "bucket-uuid",
	}
	return s
}

// vOffset makes an arbitrary offset (all four durable fields symbolic).
func vOffset(tag string) *models.Offset {
	return &models.Offset{
		SnapshotMarker: &models.SnapshotMarker{
			StartSeqNo: nondetU64(tag + ".start"),
			EndSeqNo:   nondetU64(tag + ".end"),
		},
		VbUUID:      gocbcore.VbUUID(nondetU64(tag + ".vbuuid")),
		SeqNo:       nondetU64(tag + ".seq"),
		LatestSeqNo: nondetU64(tag + ".latest"),
	}
}

func vMax(a, b uint64) uint64 {
	if a > b {
		return a
	}
	return b
}

func vMutation(vbID uint16, seqNo uint64, key []byte) *gocbcore.DcpMutation {
	return &gocbcore.DcpMutation{VbID: vbID, SeqNo: seqNo, Key: key}
}

// vfakeSeqClient implements couchbase.Client for checkpoint.Load: only the
// sequence-number and failover-log queries answer; everything else is unused.
type vfakeSeqClient struct {
	couchbase.Client
	high     [vNVB]uint64
	failover [vNVB]gocbcore.VbUUID
	seqErr   error
	foErr    error
	foCalls  int
}

func (c *vfakeSeqClient) GetVBucketSeqNos(bool) (*wrapper.ConcurrentSwissMap[uint16, uint64], error) {
	if c.seqErr != nil {
		return nil, c.seqErr
	}
	m := wrapper.CreateConcurrentSwissMap[uint16, uint64](1024)
	for vb := 0; vb < vNV(); vb++ {
		m.Store(uint16(vb), c.high[vb])
	}
	return m, nil
}

func (c *vfakeSeqClient) GetFailOverLogs(vbID uint16) ([]gocbcore.FailoverEntry, error) {
	c.foCalls++
	if c.foErr != nil {
		return nil, c.foErr
	}
	return []gocbcore.FailoverEntry{{VbUUID: c.failover[vbID], SeqNo: 5}, {VbUUID: c.failover[vbID] ^ 0x5a5a, SeqNo: 0}}, nil
}

func vLatestInit(cfg *config.Dcp) *offset.OffsetLatestSeqNoInit { return offset.NewOffsetLatestSeqNoInit(cfg) }

func newOffsetsMap() *wrapper.ConcurrentSwissMap[uint16, *models.Offset] {
	return wrapper.CreateConcurrentSwissMap[uint16, *models.Offset](1024)
}

func newDirtyMap() *wrapper.ConcurrentSwissMap[uint16, bool] {
	return wrapper.CreateConcurrentSwissMap[uint16, bool](1024)
}

func vAssigned() []uint16 {
	var ids []uint16
	for vb := 0; vb < vNV(); vb++ {
		ids = append(ids, uint16(vb))
	}
	return ids
}
