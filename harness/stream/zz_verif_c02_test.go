package stream

// C02 — a session resumes exactly where the persisted checkpoint says.

import (
	"errors"

	"github.com/Trendyol/go-dcp/config"
	"github.com/Trendyol/go-dcp/helpers"
	"github.com/Trendyol/go-dcp/metadata"
	"github.com/Trendyol/go-dcp/models"
	"github.com/couchbase/gocbcore/v10"
)

func init() {
	vHarnesses["C02_roundtrip"] = H_C02_roundtrip
	vHarnesses["C02_readonly"] = H_C02_readonly
	vHarnesses["C02_wholestate"] = H_C02_wholestate
}

// H_C02_load: the real stream.Open over fakes. Assigned vBuckets {0,1} of 4;
// any subset has a stored checkpoint with arbitrary 64-bit fields; auto-reset
// in {earliest, latest, other}; mode in {finite, infinite, unset}; arbitrary
// high seqnos (stored seqno <= high; the other case is C15) and failover uuids.
func H_C02_load() {
	setMerge(true)
	n := 2
	if tierThorough() {
		n = 3 // three assigned vBuckets of four: eight subsets of stored checkpoints, three opening goroutines
	}
	assigned := []uint16{0, 1, 2}[:n]
	fx := vNewFixture(func() []uint16 { return assigned })
	var has [3]bool
	var docs [3]*models.CheckpointDocument
	for vb := 0; vb < n; vb++ {
		fx.cl.high[vb] = nondetU64("high")
		fx.cl.failover[vb] = gocbcore.VbUUID(nondetU64("failover"))
		has[vb] = nondetBool("hasDoc")
		if has[vb] {
			docs[vb] = vDoc("doc")
			assume(docs[vb].Checkpoint.SeqNo <= fx.cl.high[vb])
			fx.fm.store[uint16(vb)] = docs[vb]
		}
	}
	switch choose("autoReset", 3) {
	case 0:
		fx.cfg.Checkpoint.AutoReset = "earliest"
	case 1:
		fx.cfg.Checkpoint.AutoReset = "latest"
	default:
		fx.cfg.Checkpoint.AutoReset = ""
	}
	finite := false
	switch choose("mode", 3) {
	case 0:
		fx.cfg.Dcp.Mode = config.DcpModeFinite
		finite = true
	case 1:
		fx.cfg.Dcp.Mode = config.DcpModeInfinite
	}
	fx.s.Open()

	assert(len(fx.cl.openCalls) == n, "exactly one stream request per assigned vBucket")
	anyDoc := has[0] || has[1] || has[2]
	for vb := 0; vb < n; vb++ {
		calls := fx.openCallsFor(uint16(vb))
		assert(len(calls) == 1, "one request for this vBucket")
		c := calls[0]
		if has[vb] {
			cover("from-checkpoint")
			d := docs[vb].Checkpoint
			assert(uint64(c.vbUUID) == d.VbUUID && c.seq == d.SeqNo && c.start == d.Snapshot.StartSeqNo && c.end == d.Snapshot.EndSeqNo,
				"requested exactly at the persisted vbUUID / seqno / snapshot range")
		} else if !anyDoc && fx.cfg.Checkpoint.AutoReset == "latest" {
			cover("from-latest")
			h := fx.cl.high[vb]
			assert(c.vbUUID == fx.cl.failover[vb] && c.seq == h && c.start == h && c.end == h, "auto-reset latest starts at the current high seqno on the current branch")
		} else {
			cover("from-zero")
			assert(c.vbUUID == 0 && c.seq == 0 && c.start == 0 && c.end == 0, "no checkpoint: all-zero request")
		}
		if finite {
			cover("finite")
			assert(c.latest == fx.cl.high[vb], "finite mode ends at the high seqno sampled at open")
		} else {
			cover("infinite")
			assert(c.latest == helpers.MaxIntValue, "infinite mode is unbounded")
		}
		obs, ok := fx.s.observers.Load(uint16(vb))
		assert(ok && c.observer == obs, "events of the vBucket go to its own observer")
		tr, ok2 := fx.s.offsets.Load(uint16(vb))
		assert(ok2 && tr == c.offset, "the tracked position starts at the requested one")
	}
	_, _, flag := fx.s.GetOffsets()
	if !anyDoc && fx.cfg.Checkpoint.AutoReset == "latest" && (fx.cl.high[0] != 0 || fx.cl.high[1] != 0 || (n > 2 && fx.cl.high[2] != 0)) {
		assert(flag, "a latest start above zero is flagged for saving")
	}
	assert(fx.s.IsOpen(), "stream reports open")
}

// H_C02_roundtrip: arbitrary offsets -> real Save -> store -> real Load:
// all four durable fields identical for every 64-bit value.
func H_C02_roundtrip() {
	vNVcur = 2
	fc := &vfakeConsumer{}
	fm := vNewFakeMetadata()
	s := vNewStream(fc, fm)
	var in [vNVB]*models.Offset
	for vb := 0; vb < vNV(); vb++ {
		in[vb] = vOffset("in")
		s.offsets.Store(uint16(vb), in[vb])
		s.dirtyOffsets.Store(uint16(vb), true)
	}
	s.anyDirtyOffset = true
	s.checkpoint.Save()
	assert(len(fm.calls) == 1, "one save")
	s2 := vNewStream(&vfakeConsumer{}, fm)
	cp := s2.checkpoint.(*checkpoint)
	cp.vbIds = vAssigned()
	cp.client = &vfakeSeqClient{high: [vNVB]uint64{^uint64(0), ^uint64(0), ^uint64(0)}}
	cp.offsetLatestSeqNoInit = vLatestInit(s2.config)
	out, dirty, flag := cp.Load()
	for vb := 0; vb < vNV(); vb++ {
		o, ok := out.Load(uint16(vb))
		assert(ok, "loaded")
		assert(o.VbUUID == in[vb].VbUUID && o.SeqNo == in[vb].SeqNo && o.StartSeqNo == in[vb].StartSeqNo && o.EndSeqNo == in[vb].EndSeqNo,
			"save then load is lossless for every 64-bit field value")
	}
	assert(dirty.Count() == 0 && !flag, "a freshly loaded checkpoint is clean")
	cover("roundtrip")
}

// H_C02_readonly: the read-only wrapper never writes and loads identically.
func H_C02_readonly() {
	fm := vNewFakeMetadata()
	d := vDoc("doc")
	fm.store[0] = d
	ro := metadata.NewReadMetadata(fm)
	err := ro.Save(map[uint16]*models.CheckpointDocument{0: vDoc("other"), 1: vDoc("other")}, map[uint16]bool{0: true, 1: true}, "b")
	assert(err == nil, "read-only save reports success")
	assert(len(fm.calls) == 0, "nothing reaches the store in read-only mode")
	assert(ro.Clear([]uint16{0, 1}) == nil && fm.store[0] == d, "clear does not reach the store either")
	a, ea, _ := ro.Load([]uint16{0, 1}, "b")
	b, eb, _ := fm.Load([]uint16{0, 1}, "b")
	assert(ea == eb, "same existence verdict")
	for vb := uint16(0); vb < 2; vb++ {
		x, okx := a.Load(vb)
		y, oky := b.Load(vb)
		assert(okx == oky && x.Checkpoint.SeqNo == y.Checkpoint.SeqNo && x.Checkpoint.VbUUID == y.Checkpoint.VbUUID &&
			x.Checkpoint.Snapshot.StartSeqNo == y.Checkpoint.Snapshot.StartSeqNo && x.Checkpoint.Snapshot.EndSeqNo == y.Checkpoint.Snapshot.EndSeqNo,
			"read-only load is identical to the wrapped backend's")
	}
	cover("readonly")
	// a later session of the same process (rebalance): the owner of the documents has
	// saved progress in between; the read-only member must see the backend as it is now
	fm.store[0] = vDoc("later0")
	if choose("second-doc-appears", 2) == 1 {
		fm.store[1] = vDoc("later1")
	} else {
		delete(fm.store, 1)
	}
	widen := choose("wider-assignment", 2) == 1
	ids := []uint16{0, 1}
	if widen {
		fm.store[2] = vDoc("later2")
		ids = []uint16{0, 1, 2}
	}
	a2, ea2, err2 := ro.Load(ids, "b")
	b2, eb2, _ := fm.Load(ids, "b")
	assert(err2 == nil && ea2 == eb2, "second session: same existence verdict")
	for _, vb := range ids {
		x, okx := a2.Load(vb)
		y, oky := b2.Load(vb)
		assert(okx == oky, "second session: same documents present")
		if okx && oky {
			assert(x.Checkpoint.SeqNo == y.Checkpoint.SeqNo && x.Checkpoint.VbUUID == y.Checkpoint.VbUUID &&
				x.Checkpoint.Snapshot.StartSeqNo == y.Checkpoint.Snapshot.StartSeqNo && x.Checkpoint.Snapshot.EndSeqNo == y.Checkpoint.Snapshot.EndSeqNo,
				"second session: read-only load is identical to the backend as it is now")
		}
	}
	cover("readonly-second-session")
}

var _ = errors.New

// H_C02_wholestate: a backend that stores the whole state per save (the file
// backend, custom backends). A save in which only some vBuckets are dirty must
// not lose the persisted checkpoint of the others: the next session resumes
// every assigned vBucket exactly at its last persisted position.
func H_C02_wholestate() {
	vNVcur = 2
	setMerge(true)
	ss := vNewSession()
	ss.fm.wholeState = true
	ss.deliverDoc(0, 0, true)
	ss.deliverDoc(1, 0, true)
	ss.s.checkpoint.Save()
	assert(len(ss.fm.store) == 2, "both vBuckets stored")
	adv := choose("advance", 2)
	ss.deliverDoc(adv, 0, true) // only this vBucket advances
	ss.s.checkpoint.Save()
	for vb := 0; vb < vNV(); vb++ {
		doc, ok := ss.fm.store[uint16(vb)]
		assert(ok && vDocIs(doc, ss.tracked(vb)), "a partial-dirty save keeps every assigned vBucket's checkpoint in a whole-state backend")
	}
	vC01Restart(ss)
	cover("wholestate")
}
