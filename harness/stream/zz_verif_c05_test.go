package stream

// C05 — settled progress becomes durable; a failed save loses nothing.

import "github.com/Trendyol/go-dcp/models"

func init() {
	vHarnesses["C05_seq"] = H_C05_seq
	vHarnesses["C05_seq3"] = H_C05_seq3
	vHarnesses["C05_seq5"] = H_C05_seq5
}

// H_C05_seq: K steps of deliveries, acknowledgements (now / late / repeated),
// reserved-key and non-document events, and saves that succeed or are
// rejected. After every *successful* save the durable checkpoint of every
// vBucket whose position was advanced (by an acknowledgement or a
// non-document event) since the last successful save equals the position
// tracked when the save began; a save with nothing advanced writes nothing.
func H_C05_seq() {
	vNVcur = 2
	vC05Seq(4) // thorough tier: every document and control event kind
}

// H_C05_seq5: five steps over two vBuckets, one kind per event class.
func H_C05_seq5() {
	vNVcur = 2
	vFewKinds = true
	vC05Seq(5)
}

// H_C05_seq3: the same histories over three vBuckets (K=4).
func H_C05_seq3() {
	vNVcur = 3
	vFewKinds = true
	vC05Seq(4)
}

func vC05Seq(K int) {
	setMerge(true)
	ss := vNewSession()
	for st := 0; st < K; st++ {
		switch choose("op", 7) {
		case 0:
			ss.deliverDoc(choose("vb", vNV()), 0, true)
		case 1:
			ss.deliverDoc(choose("vb", vNV()), 0, false)
		case 2:
			n := len(ss.fc.consumed)
			assume(n > 0)
			ss.ackIdx(choose("ackidx", n))
		case 3:
			ss.deliverReserved(choose("vb", vNV()), []byte("_txn:abc"))
		case 4:
			cover("control-event")
			ss.deliverControl(choose("vb", vNV()), choose("ckind", vControlKinds()))
		case 5:
			vC05Save(ss, true)
		case 6:
			vC05Save(ss, false)
		}
	}
	// closing save, as Close() performs with automatic checkpointing
	vC05Save(ss, true)
}

func vC05Save(ss *vSession, succeed bool) {
	var at [vNVB]*models.Offset
	for vb := 0; vb < vNV(); vb++ {
		at[vb] = ss.tracked(vb)
	}
	adv := ss.advanced
	before := len(ss.fm.calls)
	ss.failSave = !succeed
	ss.s.checkpoint.Save()
	ss.failSave = false
	wrote := false
	if len(ss.fm.calls) > before {
		call := ss.fm.calls[len(ss.fm.calls)-1]
		for vb := 0; vb < vNV(); vb++ {
			if call.dirty[uint16(vb)] {
				wrote = true
			}
		}
	}
	if !adv[0] && !adv[1] && !adv[2] {
		cover("idle-save")
		if ss.reacked[0] || ss.reacked[1] || ss.reacked[2] {
			// scenario kept apart so that a known finding about it cannot mask any other idle-save write
			assert(!wrote, "idle save after a repeated acknowledgement of the tracked event performs no write")
		} else {
			assert(!wrote, "a save issued when nothing was advanced performs no write")
		}
	}
	if !succeed {
		cover("save-rejected")
		return // nothing may be forgotten: `advanced` stays as it is
	}
	cover("save-ok")
	for vb := 0; vb < vNV(); vb++ {
		if adv[vb] {
			cover("advanced-vb-saved")
			doc, ok := ss.fm.store[uint16(vb)]
			assert(ok && vDocIs(doc, at[vb]), "after a successful save the advanced vBucket's durable checkpoint equals the position settled before the save")
		}
		ss.advanced[vb] = false
		ss.reacked[vb] = false
	}
}

// H_C05_race: an acknowledgement for vBucket 1 lands at an arbitrary point
// relative to an in-flight save (before the dump, between dump and store call,
// during the store call, after it returned, before/after the dirty marks are
// reset). After a quiescent tail of two further successful saves the durable
// checkpoint of every vBucket must equal its tracked position.
func H_C05_race() {
	vNVcur = 2
	sharedFields("anyDirtyOffset", "dirtyOffsets")
	ss := vNewSession()
	ss.deliverDoc(0, 0, true)  // vBucket 0: settled before the save
	ss.deliverDoc(0, 0, false) // vBucket 0: a newer event, acknowledgement still to come
	ss.deliverDoc(1, 0, false) // vBucket 1: delivered, acknowledgement still to come
	ss.fm.onSave = func() { yield() } // the store call takes time
	// the racing acknowledgement is for the vBucket being saved (newer event) or for another one
	racer := 1 + choose("racer", 2)
	spawnEnv(func() { ss.s.checkpoint.Save() })
	spawnEnv(func() { ss.ackIdx(racer) })
	quiesce()
	assert(ss.acked[racer], "acknowledged")
	// quiescent tail: no further acknowledgements, two more saves
	ss.fm.onSave = nil
	ss.s.checkpoint.Save()
	ss.s.checkpoint.Save()
	for vb := 0; vb < vNV(); vb++ {
		doc, ok := ss.fm.store[uint16(vb)]
		want := ss.tracked(vb)
		if (vb == 0) != (racer == 1) {
			if vb == 0 {
				assert(ok && vDocIs(doc, want), "progress settled before the save is durable")
			}
		} else {
			cover("raced")
			assert(ok && vDocIs(doc, want), "an acknowledgement racing an in-flight save is stored by a later save")
		}
	}
}
