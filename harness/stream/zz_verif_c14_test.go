package stream

// C14 (closed loop) — checkpoint writes into the streamed bucket never trigger
// further checkpoint writes.

import "github.com/Trendyol/go-dcp/models"

func init() {
	vHarnesses["C14_loop"] = H_C14_loop
}

// H_C14_loop: every document the store receives comes back on the stream as a
// mutation whose key is an arbitrary key under the reserved prefix (the
// checkpoint document lives in the source bucket). The consumer never sees
// it, the position advances over it, no vBucket is flagged by it, and once
// the real progress is saved further saves write nothing, for R rounds.
func H_C14_loop() {
	vNVcur = 2
	setMerge(true)
	R := 3
	if tierThorough() {
		R = 8
	}
	ss := vNewSession()
	// real progress on an arbitrary vBucket, acknowledged
	ss.deliverDoc(choose("vb", vNV()), 0, true)
	seenByConsumer := len(ss.fc.consumed)
	for round := 0; round < R; round++ {
		before := len(ss.fm.calls)
		ss.s.checkpoint.Save()
		if round == 0 {
			assert(len(ss.fm.calls) == before+1, "the real progress is written once")
		} else {
			assert(len(ss.fm.calls) == before, "feeding checkpoint writes back causes no further write")
		}
		if len(ss.fm.calls) == before {
			cover("quiet-round")
			continue
		}
		call := ss.fm.calls[len(ss.fm.calls)-1]
		for vb := 0; vb < vNV(); vb++ {
			if !call.dirty[uint16(vb)] {
				continue
			}
			// the write shows up on the stream of the vBucket the key hashes to (any)
			target := choose("echo-vb", vNV())
			key := append([]byte("_connector:cbgo:"), nondetBytes("keytail", 3)...)
			_, dirtyBefore, flagBefore := ss.s.GetOffsets()
			var marks [vNVB]bool
			for v := 0; v < vNV(); v++ {
				marks[v], _ = dirtyBefore.Load(uint16(v))
			}
			o := ss.deliverReservedKind(target, key, choose("echo-kind", 3))
			cover("echo")
			cur := ss.tracked(target)
			assert(cur == o, "the echoed write advances the vBucket position")
			_, dirtyAfter, flagAfter := ss.s.GetOffsets()
			assert(flagAfter == flagBefore, "an absorbed event does not raise the save flag")
			for v := 0; v < vNV(); v++ {
				m, _ := dirtyAfter.Load(uint16(v))
				assert(m == marks[v], "an absorbed event does not flag any vBucket for saving")
			}
		}
	}
	assert(len(ss.fc.consumed) == seenByConsumer, "the consumer never sees the library's own writes")
}

// H_C14_inflight: the closed loop under concurrency. The echo of a checkpoint
// write reaches the stream while the save that produced it is still in flight
// (the store call has written the document but not returned yet - the
// quantifier of C05 names this window). The echoed event lands on the saved
// vBucket itself or on another one. After the save returns, with no further
// acknowledgement, later saves must write nothing: a checkpoint write never
// triggers a further checkpoint write.
func H_C14_inflight() {
	vNVcur = 2
	sharedFields("anyDirtyOffset", "dirtyOffsets")
	ss := vNewSession()
	src := choose("vb", vNV())
	ss.deliverDoc(src, 0, true) // real progress, acknowledged
	target := choose("echo-vb", vNV())
	echoed := false
	ss.fm.onSave = func() {
		// the document is in the bucket; its mutation comes back on the stream now
		if !echoed {
			echoed = true
			key := append([]byte("_connector:cbgo:"), nondetBytes("keytail", 3)...)
			kind := choose("echo-kind", 3)
			spawnEnv(func() { ss.deliverReservedKind(target, key, kind) })
			yield()
		}
	}
	seenByConsumer := len(ss.fc.consumed)
	spawnEnv(func() { ss.s.checkpoint.Save() })
	quiesce()
	assert(echoed, "the save wrote")
	assert(len(ss.fm.calls) == 1, "the real progress is written once")
	if target == src {
		cover("echo-on-saved-vbucket")
	} else {
		cover("echo-on-other-vbucket")
	}
	ss.s.checkpoint.Save()
	ss.s.checkpoint.Save()
	assert(len(ss.fm.calls) == 1, "a checkpoint write echoed during its own save causes no further write")
	assert(len(ss.fc.consumed) == seenByConsumer, "the consumer never sees the library's own writes")
	doc, ok := ss.fm.store[uint16(src)]
	assert(ok, "progress durable")
	_ = doc
}

var _ = models.Offset{}
