package stream

// C14 (closed loop) — checkpoint writes into the streamed bucket never trigger
// further checkpoint writes.

import "github.com/Trendyol/go-dcp/models"

func init() {
	vHarnesses["C14_loop"] = H_C14_loop
}

// H_C14_loop: every document the store receives comes back on the stream as a
// mutation whose key is an arbitrary key under the reserved prefix (the
// checkpoint document lives in the source bucket). The consumer never sees
// it, the position advances over it, no vBucket is flagged by it, and once
// the real progress is saved further saves write nothing, for R rounds.
func H_C14_loop() {
	vNVcur = 2
	setMerge(true)
	R := 3
	ss := vNewSession()
	// real progress on an arbitrary vBucket, acknowledged
	ss.deliverDoc(choose("vb", vNV()), 0, true)
	seenByConsumer := len(ss.fc.consumed)
	for round := 0; round < R; round++ {
		before := len(ss.fm.calls)
		ss.s.checkpoint.Save()
		if round == 0 {
			assert(len(ss.fm.calls) == before+1, "the real progress is written once")
		} else {
			assert(len(ss.fm.calls) == before, "feeding checkpoint writes back causes no further write")
		}
		if len(ss.fm.calls) == before {
			cover("quiet-round")
			continue
		}
		call := ss.fm.calls[len(ss.fm.calls)-1]
		for vb := 0; vb < vNV(); vb++ {
			if !call.dirty[uint16(vb)] {
				continue
			}
			// the write shows up on the stream of the vBucket the key hashes to (any)
			target := choose("echo-vb", vNV())
			key := append([]byte("_connector:cbgo:"), nondetBytes("keytail", 3)...)
			_, dirtyBefore, flagBefore := ss.s.GetOffsets()
			var marks [vNVB]bool
			for v := 0; v < vNV(); v++ {
				marks[v], _ = dirtyBefore.Load(uint16(v))
			}
			o := ss.deliverReserved(target, key)
			cover("echo")
			cur := ss.tracked(target)
			assert(cur == o, "the echoed write advances the vBucket position")
			_, dirtyAfter, flagAfter := ss.s.GetOffsets()
			assert(flagAfter == flagBefore, "an absorbed event does not raise the save flag")
			for v := 0; v < vNV(); v++ {
				m, _ := dirtyAfter.Load(uint16(v))
				assert(m == marks[v], "an absorbed event does not flag any vBucket for saving")
			}
		}
	}
	assert(len(ss.fc.consumed) == seenByConsumer, "the consumer never sees the library's own writes")
}

var _ = models.Offset{}
