package stream

// C01 / C06 with the vBucket's real observer in the pipeline.

import (
	"github.com/Trendyol/go-dcp/couchbase"
	"github.com/Trendyol/go-dcp/models"
	"github.com/couchbase/gocbcore/v10"
)

func init() {
	vHarnesses["C01_obs"] = H_C01_obs
}

type vPos struct{ seq, start, end, uuid uint64 }

func vPosOf(o *models.Offset) vPos {
	return vPos{o.SeqNo, o.StartSeqNo, o.EndSeqNo, uint64(o.VbUUID)}
}

func vDocAt(doc *models.CheckpointDocument, p vPos) bool {
	return doc.Checkpoint.SeqNo == p.seq && doc.Checkpoint.VbUUID == p.uuid &&
		doc.Checkpoint.Snapshot.StartSeqNo == p.start && doc.Checkpoint.Snapshot.EndSeqNo == p.end
}

// H_C01_obs: server events enter through couchbase.observer (which builds
// the offsets), reach stream.listen, the consumer acknowledges now, later or
// never, saves (which may be rejected) happen at arbitrary points, then the
// process dies and restarts. Positions are recorded BY VALUE when an event is
// delivered, so an offset object that changes after delivery is seen. Every
// stored document must be the 4-tuple of the furthest event acknowledged
// before that save (or of the resume position), never of an event that was
// only delivered.
func H_C01_obs() {
	vNVcur = 1
	setMerge(true)
	K := 5
	if tierThorough() {
		K = 6
	}
	ss := vNewSession()
	s := ss.s
	resume := ss.settled[0][0]
	obs := couchbase.NewObserver(s.config, 0, 0, s.listen, s.listenEnd, map[uint32]string{}, s.tracerComponent)
	uuid := nondetU64("vbuuid")
	obs.SetVbUUID(gocbcore.VbUUID(uuid))
	settled := vPosOf(resume)
	var evPos []vPos
	var evAcked []bool
	ackNow := false
	ss.fc.onConsume = func(ctx *models.ListenerContext) {
		var o *models.Offset
		switch e := ctx.Event.(type) {
		case models.DcpMutation:
			o = e.Offset
		case models.DcpDeletion:
			o = e.Offset
		case models.DcpExpiration:
			o = e.Offset
		}
		assert(o != nil, "document event carries its offset")
		evPos = append(evPos, vPosOf(o))
		evAcked = append(evAcked, false)
		if ackNow {
			i := len(evPos) - 1
			ctx.Ack()
			evAcked[i] = true
			if evPos[i].seq > settled.seq {
				settled = evPos[i]
			}
		}
	}
	last := resume.SeqNo
	haveSnap := false
	var snapStart, snapEnd uint64
	for step := 0; step < K; step++ {
		switch choose("op", 4) {
		case 0: // snapshot marker
			a, b := nondetU64("snap.start"), nondetU64("snap.end")
			assume(a <= b && a >= last)
			obs.SnapshotMarker(models.DcpSnapshotMarker{VbID: 0, StartSeqNo: a, EndSeqNo: b})
			haveSnap, snapStart, snapEnd = true, a, b
			cover("marker")
		case 1: // document event inside the current snapshot
			if !haveSnap {
				continue
			}
			seq := nondetU64("seq")
			assume(seq > last && seq >= snapStart && seq <= snapEnd)
			last = seq
			ackNow = choose("ack-now", 2) == 1
			before := len(evPos)
			switch choose("kind", 3) {
			case 0:
				obs.Mutation(gocbcore.DcpMutation{VbID: 0, SeqNo: seq, Key: []byte("doc")})
			case 1:
				obs.Deletion(gocbcore.DcpDeletion{VbID: 0, SeqNo: seq, Key: []byte("doc")})
			default:
				obs.Expiration(gocbcore.DcpExpiration{VbID: 0, SeqNo: seq, Key: []byte("doc")})
			}
			ackNow = false
			assert(len(evPos) == before+1, "the event reaches the consumer")
			p := evPos[before]
			assert(p.seq == seq && p.uuid == uuid, "the delivered offset names this event")
			cover("delivered")
		case 2: // the oldest withheld acknowledgement arrives
			for i := range evAcked {
				if !evAcked[i] {
					ss.fc.consumed[i].Ack()
					evAcked[i] = true
					if evPos[i].seq > settled.seq {
						settled = evPos[i]
					}
					cover("late-ack")
					break
				}
			}
		default: // save
			ss.failSave = choose("save-fails", 2) == 1
			atSave := settled
			s.checkpoint.Save()
			if doc, ok := ss.fm.store[0]; ok {
				assert(doc.Checkpoint.SeqNo <= atSave.seq, "the stored checkpoint is not ahead of the furthest acknowledged event")
				if !ss.failSave && len(ss.fm.calls) > 0 {
					cover("saved")
				}
			}
			if !ss.failSave {
				if doc, ok := ss.fm.store[0]; ok {
					assert(vDocAt(doc, atSave), "a successful save stores exactly the furthest acknowledged position, field for field")
				}
			}
			ss.failSave = false
		}
	}
	// every event delivered earlier still reads as it did when it was delivered
	for i := range evPos {
		var o *models.Offset
		switch e := ss.fc.consumed[i].Event.(type) {
		case models.DcpMutation:
			o = e.Offset
		case models.DcpDeletion:
			o = e.Offset
		case models.DcpExpiration:
			o = e.Offset
		}
		assert(vPosOf(o) == evPos[i], "an offset handed to the consumer never changes afterwards")
	}
	// crash and restart
	s2 := vNewStream(&vfakeConsumer{}, ss.fm)
	cp := s2.checkpoint.(*checkpoint)
	cp.vbIds = vAssigned()
	cp.client = &vfakeSeqClient{high: [vNVB]uint64{^uint64(0), ^uint64(0), ^uint64(0)}}
	cp.offsetLatestSeqNoInit = vLatestInit(s2.config)
	offsets, _, _ := cp.Load()
	o, ok := offsets.Load(0)
	assert(ok, "restart: resume position present")
	if _, stored := ss.fm.store[0]; stored {
		assert(o.SeqNo <= settled.seq, "restart is not beyond the furthest acknowledged event")
		cover("restarted-from-checkpoint")
	}
}
