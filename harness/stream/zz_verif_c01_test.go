package stream

// C01 — the durable checkpoint never runs ahead of what the consumer settled.
// C06 (document part) — every stored document is the untorn 4-tuple of one settled event.

import "github.com/Trendyol/go-dcp/models"

func init() {
	vHarnesses["C01_hist"] = H_C01_hist
	vHarnesses["C01_hist3"] = H_C01_hist3
	vHarnesses["C01_hist5"] = H_C01_hist5
}

// H_C01_hist: K steps of {deliver+ack now, deliver+withhold, ack a withheld
// event, reserved-key event, non-document event, save ok / save rejected /
// save persisted only on a subset of vBuckets}. After every save call each
// document handed to the store for a dirty vBucket must be exactly the
// 4-tuple of an offset settled before that call began. At the end the process
// "dies" and a fresh checkpoint.Load on the store must resume every vBucket
// at a settled position, not beyond the furthest settled one.
func H_C01_hist() {
	vNVcur = 2
	vC01Hist(4)
}

// H_C01_hist5: five steps over two vBuckets, without the commit-through-context step
// (with it the space exceeds the 2*10^6 path budget: measured).
func H_C01_hist5() {
	vNVcur = 2
	vC01NoCommit = true
	vFewKinds = true
	vC01Hist(5)
}

var vC01NoCommit bool

// H_C01_hist3: the same histories over three vBuckets (K=4).
func H_C01_hist3() {
	vNVcur = 3
	vFewKinds = true
	vC01Hist(4)
}

func vC01Hist(K int) {
	setMerge(true)
	ss := vNewSession()
	var partial [vNVB]bool
	ss.fm.writeMask = func(vbID uint16) bool { return !partial[vbID] }
	for st := 0; st < K; st++ {
		nops := 7
		if vC01NoCommit {
			nops = 6
		}
		switch choose("op", nops) {
		case 0:
			cover("deliver-ack-now")
			ss.deliverDoc(choose("vb", vNV()), choose("kind", vDocKinds()), true)
		case 1:
			cover("deliver-withhold")
			ss.deliverDoc(choose("vb", vNV()), choose("kind", vDocKinds()), false)
		case 2:
			n := len(ss.fc.consumed)
			assume(n > 0)
			i := choose("ackidx", n)
			cover("late-ack")
			ss.ackIdx(i) // may repeat an acknowledgement, or acknowledge out of order
		case 3:
			cover("reserved-key")
			ss.deliverReserved(choose("vb", vNV()), []byte("_connector:cbgo:x"))
		case 4:
			cover("control-event")
			ss.deliverControl(choose("vb", vNV()), choose("ckind", vControlKinds()))
		case 6:
			// the consumer commits (explicit save) through the context of an event it may not have acknowledged
			n := len(ss.fc.consumed)
			assume(n > 0)
			i := choose("commitidx", n)
			cover("commit-via-context")
			var nset [vNVB]int
			for vb := 0; vb < vNV(); vb++ {
				nset[vb] = len(ss.settled[vb])
			}
			before := len(ss.fm.calls)
			ss.fc.consumed[i].Commit()
			if len(ss.fm.calls) > before {
				call := ss.fm.calls[len(ss.fm.calls)-1]
				for vb := 0; vb < vNV(); vb++ {
					if call.dirty[uint16(vb)] {
						assert(ss.docSettled(vb, call.state[uint16(vb)], nset[vb]), "a commit stores only positions settled before it (committing is not acknowledging)")
					}
				}
			}
		case 5:
			// a save: rejected, complete, or cut short after a subset of the per-vBucket writes
			var nset [vNVB]int
			for vb := 0; vb < vNV(); vb++ {
				nset[vb] = len(ss.settled[vb])
			}
			// rejected, complete, or only all-but-one vBucket written (crash part-way through the per-vBucket writes)
			mode := choose("save", 2+vNV())
			ss.failSave = mode == 0
			for vb := 0; vb < vNV(); vb++ {
				partial[vb] = mode == 2+vb
			}
			before := len(ss.fm.calls)
			ss.s.checkpoint.Save()
			ss.failSave = false
			if len(ss.fm.calls) > before {
				cover("store-called")
				call := ss.fm.calls[len(ss.fm.calls)-1]
				for vb := 0; vb < vNV(); vb++ {
					if call.dirty[uint16(vb)] {
						doc := call.state[uint16(vb)]
						assert(doc != nil, "dirty vBucket has a document")
						assert(ss.docSettled(vb, doc, nset[vb]), "document handed to the store is a position settled before the save began (all four fields of one event)")
					}
				}
			}
		}
	}
	// invariant on the durable store at the (arbitrary) crash point
	for vb := 0; vb < vNV(); vb++ {
		if doc, ok := ss.fm.store[uint16(vb)]; ok {
			cover("durable-doc")
			assert(ss.docSettled(vb, doc, len(ss.settled[vb])), "durable checkpoint names a settled position")
		}
	}
	// restart: a new session loads the store
	vC01Restart(ss)
}

func vC01Restart(ss *vSession) {
	s2 := vNewStream(&vfakeConsumer{}, ss.fm)
	cp := s2.checkpoint.(*checkpoint)
	cp.vbIds = vAssigned()
	cp.client = &vfakeSeqClient{high: [vNVB]uint64{^uint64(0), ^uint64(0), ^uint64(0)}}
	cp.offsetLatestSeqNoInit = vLatestInit(s2.config)
	offsets, _, _ := cp.Load()
	for vb := 0; vb < vNV(); vb++ {
		o, ok := offsets.Load(uint16(vb))
		assert(ok, "restart: every assigned vBucket has a resume position")
		doc, stored := ss.fm.store[uint16(vb)]
		if stored {
			assert(vDocIs(doc, o), "restart resumes exactly at the durable checkpoint")
			furthest := ss.tracked(vb)
			assert(o.SeqNo <= furthest.SeqNo, "restart is not beyond the furthest settled position")
		} else {
			assert(o.SeqNo == 0 && o.StartSeqNo == 0 && o.EndSeqNo == 0 && o.VbUUID == 0, "restart without a checkpoint starts from zero")
		}
	}
	cover("restarted")
}

var _ = models.Offset{}
