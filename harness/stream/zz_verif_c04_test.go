package stream

// C04 — tracked position only moves forward and equals the furthest settled event.

import (
	"github.com/Trendyol/go-dcp/models"
)

func init() {
	vHarnesses["C04_step"] = H_C04_step
	vHarnesses["C04_perm"] = H_C04_perm
	vHarnesses["C04_late"] = H_C04_late
	vHarnesses["C04_views"] = H_C04_views
}

// H_C04_step (inductive step): arbitrary assigned range [a,b], arbitrary
// pre-state for two distinct vBuckets (each present or absent, arbitrary dirty
// marks), one setOffset(vb, o, dirty) with everything arbitrary.
func H_C04_step() {
	fc := &vfakeConsumer{}
	s := vNewStream(fc, vNewFakeMetadata())
	a, b := nondetU16("range.a"), nondetU16("range.b")
	s.vbIDRange = &models.VbIDRange{Start: a, End: b}

	k := [2]uint16{nondetU16("k0"), nondetU16("k1")}
	assume(k[0] != k[1])
	var pre [2]*models.Offset
	var preDirtyFound, preDirtyVal [2]bool
	for i := 0; i < 2; i++ {
		if nondetBool("present") {
			pre[i] = vOffset("pre")
			s.offsets.Store(k[i], pre[i])
		}
		if nondetBool("dirtyPresent") {
			preDirtyFound[i] = true
			preDirtyVal[i] = nondetBool("dirtyVal")
			s.dirtyOffsets.Store(k[i], preDirtyVal[i])
		}
	}
	preCount := s.offsets.Count()
	preDirtyCount := s.dirtyOffsets.Count()
	preFlag := nondetBool("anyDirty")
	s.anyDirtyOffset = preFlag

	vb := nondetU16("vb")
	o := vOffset("new")
	dirty := nondetBool("dirty")

	s.setOffset(vb, o, dirty)

	inRange := vb >= a && vb <= b
	// which pre-state slot (if any) does vb name?
	slot := -1
	if vb == k[0] {
		slot = 0
	} else if vb == k[1] {
		slot = 1
	}
	var old *models.Offset
	if slot >= 0 {
		old = pre[slot]
	}
	cur, ok := s.offsets.Load(vb)
	dcur, dok := s.dirtyOffsets.Load(vb)

	// a strictly newer position must be accepted, an older one rejected; for an
	// equal seqno (the same event acknowledged again) the position does not move
	// and either object may be kept
	equal := inRange && old != nil && old.SeqNo == o.SeqNo
	accepted := inRange && (old == nil || old.SeqNo < o.SeqNo)
	if equal {
		accepted = ok && cur == o
	}
	if !inRange {
		cover("out-of-range")
		assert(len(fc.tracked) == 0, "out-of-range: offset tracker not called")
		assert(s.offsets.Count() == preCount, "out-of-range: no checkpoint entry created")
		assert(s.dirtyOffsets.Count() == preDirtyCount, "out-of-range: no dirty mark created")
		assert(ok == (old != nil) && (!ok || cur == old), "out-of-range: position untouched")
	} else if equal {
		cover("repeated")
		assert(ok && (cur == old || cur == o) && cur.SeqNo == old.SeqNo, "repeated acknowledgement: position unchanged")
		assert(len(fc.tracked) <= 1 && (len(fc.tracked) == 1) == (cur == o), "repeated acknowledgement: tracker told at most once, and only if the object was replaced")
		assert(s.offsets.Count() == preCount, "repeated acknowledgement: entry count unchanged")
	} else if !accepted {
		cover("regression-rejected")
		assert(ok && cur == old, "regression: tracked position kept")
		assert(len(fc.tracked) == 0, "regression: offset tracker not called")
		assert(s.offsets.Count() == preCount, "regression: entry count unchanged")
	} else {
		cover("accepted")
		assert(ok && cur == o, "accepted: tracked position is the new offset object")
		assert(len(fc.tracked) == 1 && fc.tracked[0].vbID == vb && fc.tracked[0].offset == o, "accepted: tracker told once with that object")
		if old != nil {
			assert(cur.SeqNo == vMax(old.SeqNo, o.SeqNo), "accepted: position is the maximum")
		}
		if dirty {
			cover("accepted-dirty")
			assert(dok && dcur, "accepted+dirty: vBucket flagged for saving")
		}
	}
	if !(accepted && dirty) {
		// dirty mark of vb unchanged
		if slot >= 0 {
			assert(dok == preDirtyFound[slot] && (!dok || dcur == preDirtyVal[slot]), "dirty mark unchanged")
		} else {
			assert(!dok, "no dirty mark appears for an untouched vBucket")
		}
	}
	// the other vBuckets are untouched
	for i := 0; i < 2; i++ {
		if i == slot {
			continue
		}
		c, cok := s.offsets.Load(k[i])
		assert(cok == (pre[i] != nil) && (!cok || c == pre[i]), "other vBucket position untouched")
		d, dk := s.dirtyOffsets.Load(k[i])
		assert(dk == preDirtyFound[i] && (!dk || d == preDirtyVal[i]), "other vBucket dirty mark untouched")
	}
	if !(accepted && dirty) {
		assert(s.anyDirtyOffset == preFlag, "save flag untouched unless a position was accepted and flagged")
	}
}

// H_C04_perm (bounded history): one vBucket, K delivered events with arbitrary
// seqnos, acknowledged in an arbitrary order with repetitions (each step's
// index is a free choice). After every step the tracked position is the
// maximum acknowledged so far and never below the resume position.
func H_C04_perm() {
	K := 3
	steps := 4
	if tierThorough() {
		K, steps = 4, 6
	}
	fc := &vfakeConsumer{}
	s := vNewStream(fc, vNewFakeMetadata())
	vb := nondetU16("vb")
	assume(vb <= 1023) // inside the assigned range [0,1023] of vNewStream
	resume := vOffset("resume")
	s.offsets.Store(vb, resume)

	// deliver K document events through the real listen(); the consumer withholds every ack
	events := make([]*models.Offset, K)
	for i := 0; i < K; i++ {
		events[i] = vOffset("ev")
		assume(events[i].SeqNo > resume.SeqNo)
		s.listen(models.ListenerArgs{Event: models.DcpMutation{
			DcpMutation: vMutation(vb, events[i].SeqNo, []byte("k")),
			Offset:      events[i],
		}})
	}
	assert(len(fc.consumed) == K, "every document event reached the consumer")
	best := resume.SeqNo
	for st := 0; st < steps; st++ {
		i := choose("ack", K)
		fc.consumed[i].Ack()
		best = vMax(best, events[i].SeqNo)
		cur, ok := s.offsets.Load(vb)
		assert(ok && cur.SeqNo == best, "tracked position equals the furthest acknowledged")
		assert(cur.SeqNo >= resume.SeqNo, "never below the resume position")
		assert(fc.tracked[len(fc.tracked)-1].offset.SeqNo <= best, "tracker never told a position beyond the furthest acknowledged")
	}
	cover("perm-done")
}

// H_C04_late: an acknowledgement issued after a rebalance moved the assigned
// range is ignored when its vBucket is outside the new range, and creates no
// checkpoint entry for it.
func H_C04_late() {
	fc := &vfakeConsumer{}
	s := vNewStream(fc, vNewFakeMetadata())
	s.vbIDRange = &models.VbIDRange{Start: 0, End: 511}
	vb := nondetU16("vb")
	assume(vb <= 511)
	s.offsets.Store(vb, vOffset("resume"))
	ev := vOffset("ev")
	s.listen(models.ListenerArgs{Event: models.DcpMutation{DcpMutation: vMutation(vb, ev.SeqNo, []byte("k")), Offset: ev}})
	// rebalance: the stream is closed (fresh maps) and reopened on a new range
	a, b := nondetU16("new.a"), nondetU16("new.b")
	s.offsets = newOffsetsMap()
	s.dirtyOffsets = newDirtyMap()
	s.resetDirtySeqNos()
	s.anyDirtyOffset = false
	s.vbIDRange = &models.VbIDRange{Start: a, End: b}
	tracked := len(fc.tracked)
	fc.consumed[0].Ack() // the consumer acknowledges the old event only now
	inNew := vb >= a && vb <= b
	if !inNew {
		cover("outside-new-range")
		assert(s.offsets.Count() == 0 && s.dirtyOffsets.Count() == 0, "no checkpoint is created for a vBucket the member no longer owns")
		assert(len(fc.tracked) == tracked, "the offset tracker is not told")
	} else {
		cover("inside-new-range")
		cur, ok := s.offsets.Load(vb)
		assert(ok && cur == ev, "still owned: the acknowledgement counts")
	}
}

// H_C04_par: two goroutines acknowledge concurrently on different vBuckets;
// every interleaving at map operations and at the save-flag store.
func H_C04_par() {
	sharedFields("anyDirtyOffset")
	fc := &vfakeConsumer{}
	s := vNewStream(fc, vNewFakeMetadata())
	var ev [2]*models.Offset
	for vb := 0; vb < 2; vb++ {
		r := vOffset("resume")
		s.offsets.Store(uint16(vb), r)
		ev[vb] = vOffset("ev")
		assume(ev[vb].SeqNo > r.SeqNo)
		s.listen(models.ListenerArgs{Event: models.DcpMutation{DcpMutation: vMutation(uint16(vb), ev[vb].SeqNo, []byte("k")), Offset: ev[vb]}})
	}
	done := 0
	for vb := 0; vb < 2; vb++ {
		ctx := fc.consumed[vb]
		spawnEnv(func() {
			ctx.Ack()
			done++
		})
	}
	quiesce()
	assert(done == 2, "both acknowledgements completed")
	for vb := 0; vb < 2; vb++ {
		cur, ok := s.offsets.Load(uint16(vb))
		assert(ok && cur == ev[vb], "each vBucket ends at its own acknowledged position, as if acknowledged alone")
		d, dok := s.dirtyOffsets.Load(uint16(vb))
		assert(dok && d, "both vBuckets are flagged for saving")
	}
	assert(s.anyDirtyOffset, "the save flag is raised")
	cover("par")
}

// H_C04_openrange: the assigned range as the real Open() computes it from the
// discovery result: acknowledgements for the vBuckets just outside either end
// are ignored, those inside count.
func H_C04_openrange() {
	fx := vNewFixture(func() []uint16 { return []uint16{1, 2} })
	fx.cl.high = [vTotalVB]uint64{^uint64(0), ^uint64(0), ^uint64(0), ^uint64(0)}
	fx.s.Open()
	vb := uint16(choose("vb", 4))
	ev := vOffset("ev")
	assume(ev.SeqNo > 0)
	tracked := len(fx.fc.tracked)
	fx.s.listen(models.ListenerArgs{Event: models.DcpMutation{DcpMutation: vMutation(vb, ev.SeqNo, []byte("k")), Offset: ev}})
	fx.fc.consumed[0].Ack()
	cur, ok := fx.s.offsets.Load(vb)
	_, dok := fx.s.dirtyOffsets.Load(vb)
	if vb == 1 || vb == 2 {
		cover("owned")
		assert(ok && cur == ev && dok, "an acknowledgement for an owned vBucket counts")
	} else {
		cover("neighbour")
		assert(!ok && !dok, "no checkpoint entry is created for the vBucket just outside the assigned range")
		assert(len(fx.fc.tracked) == tracked, "the offset tracker is not told about it")
	}
}

// H_C04_views: every view of the tracked position agrees with the furthest
// settled event at all times. Two vBuckets, K withheld events each, an arbitrary
// acknowledgement order with repetitions across both, and a save at an arbitrary
// subset of the steps: after each step the maps handed out by GetOffsets() (what
// the offsets API and the metrics collector read), the consumer's offset tracker
// and - after a save - the stored document all show, per vBucket, the maximum
// acknowledged so far; a vBucket nobody acknowledged is neither flagged nor written.
func H_C04_views() {
	K, steps := 2, 3
	if tierThorough() {
		K, steps = 3, 4
	}
	fc := &vfakeConsumer{}
	fm := vNewFakeMetadata()
	s := vNewStream(fc, fm)
	var resume [2]*models.Offset
	var best [2]uint64
	var acked, unsaved [2]bool
	events := make([]*models.Offset, 0, 2*K)
	for vb := 0; vb < 2; vb++ {
		resume[vb] = vOffset("resume")
		best[vb] = resume[vb].SeqNo
		s.offsets.Store(uint16(vb), resume[vb])
		for i := 0; i < K; i++ {
			ev := vOffset("ev")
			assume(ev.SeqNo > resume[vb].SeqNo)
			events = append(events, ev)
			s.listen(models.ListenerArgs{Event: models.DcpMutation{DcpMutation: vMutation(uint16(vb), ev.SeqNo, []byte("k")), Offset: ev}})
		}
	}
	assert(len(fc.consumed) == 2*K, "every document event reached the consumer")
	for st := 0; st < steps; st++ {
		i := choose("ack", 2*K)
		vb := i / K
		if events[i].SeqNo > best[vb] {
			unsaved[vb] = true
		}
		best[vb] = vMax(best[vb], events[i].SeqNo)
		acked[vb] = true
		fc.consumed[i].Ack()

		offs, dirty, anyDirty := s.GetOffsets()
		for v := 0; v < 2; v++ {
			cur, ok := offs.Load(uint16(v))
			assert(ok && cur.SeqNo == best[v], "GetOffsets shows the furthest acknowledged position of every vBucket")
			d, dok := dirty.Load(uint16(v))
			if unsaved[v] {
				assert(dok && d && anyDirty, "a vBucket with unsaved progress is flagged in the view the next save reads")
			}
			if !acked[v] {
				assert(!(dok && d), "a vBucket nobody acknowledged is not flagged")
				assert(cur == resume[v], "and still shows its resume position")
			}
			// the tracker's latest word on this vBucket is the furthest position
			for t := len(fc.tracked) - 1; t >= 0; t-- {
				if fc.tracked[t].vbID == uint16(v) {
					assert(fc.tracked[t].offset.SeqNo == best[v], "the offset tracker's latest position is the furthest acknowledged")
					break
				}
			}
		}
		if choose("save", 2) == 1 {
			s.Save()
			for v := 0; v < 2; v++ {
				doc, ok := fm.store[uint16(v)]
				if !acked[v] {
					assert(!ok, "no document is written for a vBucket without acknowledged progress")
					continue
				}
				cur, _ := offs.Load(uint16(v))
				assert(ok && doc.Checkpoint.SeqNo == best[v], "the save writes the furthest acknowledged position")
				assert(doc.Checkpoint.VbUUID == uint64(cur.VbUUID) && doc.Checkpoint.Snapshot.StartSeqNo == cur.StartSeqNo && doc.Checkpoint.Snapshot.EndSeqNo == cur.EndSeqNo, "with the snapshot and vbUUID of that same event")
				unsaved[v] = false
			}
			cover("saved")
		}
	}
	cover("views-done")
}
