package stream

// C15 — start-up fails fast instead of running on an inconsistent or partial basis.

import (
	"errors"

	"github.com/Trendyol/go-dcp/config"
	"github.com/Trendyol/go-dcp/couchbase"
	"github.com/Trendyol/go-dcp/models"
	"github.com/Trendyol/go-dcp/wrapper"
)

var vErrInjected = errors.New("injected failure")

// H_C15_load: the real stream.Open with arbitrary (stored seqno, high seqno)
// per vBucket and up to two injected failures among {config snapshot, store
// load, seqno query, failover-log query of vb0/vb1, stream open of vb0/vb1,
// a load result that lacks an assigned vBucket}.
// The client must terminate iff some documented guard holds; otherwise every
// assigned vBucket was requested, from a position the server has reached.
func H_C15_load() {
	setMerge(true)
	setPreempt(1)
	fx := vNewFixture(func() []uint16 { return []uint16{0, 1} })
	latest := choose("autoReset", 2) == 1
	if latest {
		fx.cfg.Checkpoint.AutoReset = "latest"
	}
	var has [2]bool
	var docSeq [2]uint64
	for vb := 0; vb < 2; vb++ {
		fx.cl.high[vb] = nondetU64("high")
		has[vb] = nondetBool("hasDoc")
		if has[vb] {
			d := vDoc("doc")
			docSeq[vb] = d.Checkpoint.SeqNo
			fx.fm.store[uint16(vb)] = d
		}
	}
	var fail [9]bool
	fail[choose("failA", 9)] = true
	fail[choose("failB", 9)] = true
	if tierThorough() {
		fail[choose("failC", 9)] = true // up to three simultaneous failures
	}
	// index 0 = no failure
	if fail[1] {
		fx.cl.snapErr = vErrInjected
	}
	if fail[2] {
		fx.fm.loadErr = vErrInjected
	}
	if fail[3] {
		fx.cl.seqErr = vErrInjected
	}
	if fail[8] {
		// the backend answers, but its result lacks an assigned vBucket (file written for a narrower assignment, custom backend)
		fx.fm.loadSkip = func(vbID uint16) bool { return vbID == 1 }
		cover("partial-load")
	}
	fx.cl.foErr = func(vbID uint16) error {
		if fail[4+int(vbID)] {
			return vErrInjected
		}
		return nil
	}
	fx.cl.openErr = func(vbID uint16, nth int) error {
		if fail[6+int(vbID)] {
			return vErrInjected
		}
		return nil
	}
	if fail[8] {
		has[1] = false
	}
	latestBranch := latest && !has[0] && !has[1]
	ahead := !latestBranch && ((has[0] && docSeq[0] > fx.cl.high[0]) || (has[1] && docSeq[1] > fx.cl.high[1]))
	foFail := latestBranch && (fail[4] || (fail[5] && !fail[8]))
	guard := fail[1] || fail[2] || fail[3] || foFail || ahead || fail[6] || fail[7] || fail[8]
	if ahead {
		cover("checkpoint-ahead")
	}
	if guard {
		cover("must-fail")
	} else {
		cover("must-start")
	}
	allowCrash(guard)
	stoppedInCaller, _ := expectPanic(fx.s.Open)
	// reaching this line means no other goroutine crashed the process
	assert(stoppedInCaller == guard, "start-up returns normally iff no guard condition holds (otherwise the client terminates)")
	assert(len(fx.fc.consumed) == 0, "nothing is delivered during start-up")
	if !stoppedInCaller {
		assert(len(fx.cl.openCalls) == 2, "a running session covers its whole assignment")
		for _, c := range fx.cl.openCalls {
			assert(c.seq <= fx.cl.high[c.vbID], "no stream is requested from a position the server has not reached")
		}
		assert(fx.s.IsOpen(), "open")
	} else {
		assert(!fx.s.IsOpen(), "a failed start-up does not report an open stream")
	}
}

// H_C15_reopen: re-opening a vBucket after a transient end retries at most
// five times, one second apart, and terminates the client when all five fail.
func H_C15_reopen() {
	fx := vNewFixture(func() []uint16 { return []uint16{0, 1} })
	s := fx.s
	s.offsets = wrapper.CreateConcurrentSwissMap[uint16, *models.Offset](1024)
	s.observers = wrapper.CreateConcurrentSwissMap[uint16, couchbase.Observer](1024)
	s.offsets.Store(0, &models.Offset{SnapshotMarker: &models.SnapshotMarker{}, SeqNo: nondetU64("seq")})
	var pattern [5]bool
	allFail := true
	firstOK := -1
	for i := 0; i < 5; i++ {
		pattern[i] = nondetBool("fail")
		if !pattern[i] {
			allFail = false
			if firstOK < 0 {
				firstOK = i
			}
		}
	}
	fx.cl.openErr = func(vbID uint16, nth int) error {
		if nth < 5 && pattern[nth] {
			return vErrInjected
		}
		return nil
	}
	t0 := nowNs()
	p, _ := expectPanic(func() { s.reopenStream(0) })
	assert(p == allFail, "re-open terminates the client iff five consecutive attempts fail")
	if allFail {
		cover("gave-up")
		assert(len(fx.cl.openCalls) == 5, "exactly five attempts")
	} else {
		cover("reopened")
		assert(len(fx.cl.openCalls) == firstOK+1, "stops at the first success")
		assert(nowNs()-t0 == int64(firstOK)*1000000000, "one second between attempts")
	}
}

// H_C15_types: an unknown membership type terminates start-up before any server call.
func H_C15_types() {
	setMerge(true)
	cfg := &config.Dcp{}
	maxLen := 12
	if tierThorough() {
		maxLen = 24 // longer than every known type name (kubernetesStatefulSet has 21 bytes)
	}
	typ := nondetStr("type", concretize(nondetInt("len"), 0, maxLen))
	known := typ == "static" || typ == "couchbase" || typ == "kubernetesStatefulSet" || typ == "kubernetesHa" || typ == "dynamic"
	assume(!known)
	cfg.Dcp.Group.Membership.Type = typ
	cl := &vfakeClient{}
	p, _ := expectPanic(func() { NewVBucketDiscovery(cl, cfg, 1024, nil) })
	assert(p, "unknown membership type terminates start-up")
	assert(cl.seqCalls == 0 && len(cl.openCalls) == 0 && cl.pings == 0, "no server call before the type check")
	cover("unknown-type")
}
