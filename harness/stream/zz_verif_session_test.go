package stream

// A bounded-history driver shared by C01 / C05 / C06 / C14: a real stream fed
// through its real listen() with a consumer that may acknowledge now, later or
// never, and a store that may reject a save or persist only part of it.

import (
	"github.com/Trendyol/go-dcp/models"
	"github.com/couchbase/gocbcore/v10"
)

const vNVB = 3 // capacity of the per-vBucket arrays

var vNVcur = 2 // vBuckets 0..vNVcur-1 are assigned in the current harness

func vNV() int { return vNVcur }

type vSession struct {
	s  *stream
	fc *vfakeConsumer
	fm *vfakeMetadata

	lastSeq  [vNVB]uint64             // last seqno the server sent per vBucket
	settled  [vNVB][]*models.Offset   // resume position + every acknowledged/absorbed offset, in order
	evOffset []*models.Offset         // offset of the i-th consumed (document) event
	evVb     []uint16                 //   and its vBucket
	acked    []bool                   //   acknowledged already?
	ackNow   bool                     // consumer acknowledges inside ConsumeEvent
	advanced [vNVB]bool               // advanced (ack / non-document event) since the last successful save
	reacked  [vNVB]bool               // an acknowledgement was accepted without moving the position (equal seqno) since then
	failSave bool
}

func vNewSession() *vSession {
	ss := &vSession{fc: &vfakeConsumer{}, fm: vNewFakeMetadata()}
	ss.s = vNewStream(ss.fc, ss.fm)
	ss.s.vbIDRange = &models.VbIDRange{Start: 0, End: uint16(vNV() - 1)}
	ss.fm.failNext = func() bool { return ss.failSave }
	ss.fc.onConsume = func(ctx *models.ListenerContext) {
		if ss.ackNow {
			ss.ackIdx(len(ss.fc.consumed) - 1)
		}
	}
	for vb := 0; vb < vNV(); vb++ {
		r := vOffset("resume")
		ss.s.offsets.Store(uint16(vb), r)
		ss.lastSeq[vb] = r.SeqNo
		ss.settled[vb] = append(ss.settled[vb], r)
	}
	return ss
}

// nextOffset: the server's next event on vb (strictly increasing seqnos).
func (ss *vSession) nextOffset(vb int) *models.Offset {
	o := vOffset("ev")
	assume(o.SeqNo > ss.lastSeq[vb])
	ss.lastSeq[vb] = o.SeqNo
	return o
}

func (ss *vSession) ackIdx(i int) {
	vb := ss.evVb[i]
	before := ss.tracked(int(vb))
	ss.fc.consumed[i].Ack()
	ss.acked[i] = true
	ss.settled[vb] = append(ss.settled[vb], ss.evOffset[i])
	if ss.tracked(int(vb)) != before {
		ss.advanced[vb] = true // the acknowledgement moved the position
	} else if ss.evOffset[i].SeqNo == before.SeqNo {
		ss.reacked[vb] = true // repeated acknowledgement of the event at the tracked position
	}
}

// deliverDoc feeds a document event with an ordinary key.
func (ss *vSession) deliverDoc(vb int, kind int, ackNow bool) {
	o := ss.nextOffset(vb)
	ss.evOffset = append(ss.evOffset, o)
	ss.evVb = append(ss.evVb, uint16(vb))
	ss.acked = append(ss.acked, false)
	ss.ackNow = ackNow
	key := []byte("doc")
	var ev interface{}
	switch kind {
	case 0:
		ev = models.DcpMutation{DcpMutation: &gocbcore.DcpMutation{VbID: uint16(vb), SeqNo: o.SeqNo, Key: key}, Offset: o}
	case 1:
		ev = models.DcpDeletion{DcpDeletion: &gocbcore.DcpDeletion{VbID: uint16(vb), SeqNo: o.SeqNo, Key: key}, Offset: o}
	default:
		ev = models.DcpExpiration{DcpExpiration: &gocbcore.DcpExpiration{VbID: uint16(vb), SeqNo: o.SeqNo, Key: key}, Offset: o}
	}
	ss.s.listen(models.ListenerArgs{Event: ev})
	ss.ackNow = false
}

// deliverReserved feeds a mutation whose key lies under a library-reserved prefix.
func (ss *vSession) deliverReserved(vb int, key []byte) *models.Offset {
	return ss.deliverReservedKind(vb, key, 0)
}

// deliverReservedKind: the document event is a mutation (0), a deletion (1) or an
// expiration (2) - heart-beat documents and transaction records carry a TTL.
func (ss *vSession) deliverReservedKind(vb int, key []byte, kind int) *models.Offset {
	o := ss.nextOffset(vb)
	before := len(ss.fc.consumed)
	var ev interface{}
	switch kind {
	case 0:
		ev = models.DcpMutation{DcpMutation: &gocbcore.DcpMutation{VbID: uint16(vb), SeqNo: o.SeqNo, Key: key}, Offset: o}
	case 1:
		ev = models.DcpDeletion{DcpDeletion: &gocbcore.DcpDeletion{VbID: uint16(vb), SeqNo: o.SeqNo, Key: key}, Offset: o}
	default:
		ev = models.DcpExpiration{DcpExpiration: &gocbcore.DcpExpiration{VbID: uint16(vb), SeqNo: o.SeqNo, Key: key}, Offset: o}
	}
	ss.s.listen(models.ListenerArgs{Event: ev})
	assert(len(ss.fc.consumed) == before, "reserved-key event is not shown to the consumer")
	ss.settled[vb] = append(ss.settled[vb], o)
	return o
}

// deliverControl feeds one of the seven non-document events.
func (ss *vSession) deliverControl(vb int, kind int) *models.Offset {
	o := ss.nextOffset(vb)
	before := len(ss.fc.consumed)
	var ev interface{}
	switch kind {
	case 0:
		ev = models.DcpSeqNoAdvanced{DcpSeqNoAdvanced: &gocbcore.DcpSeqNoAdvanced{VbID: uint16(vb), SeqNo: o.SeqNo}, Offset: o}
	case 1:
		ev = models.DcpCollectionCreation{DcpCollectionCreation: &gocbcore.DcpCollectionCreation{VbID: uint16(vb), SeqNo: o.SeqNo}, Offset: o}
	case 2:
		ev = models.DcpCollectionDeletion{DcpCollectionDeletion: &gocbcore.DcpCollectionDeletion{VbID: uint16(vb), SeqNo: o.SeqNo}, Offset: o}
	case 3:
		ev = models.DcpCollectionFlush{DcpCollectionFlush: &gocbcore.DcpCollectionFlush{VbID: uint16(vb), SeqNo: o.SeqNo}, Offset: o}
	case 4:
		ev = models.DcpScopeCreation{DcpScopeCreation: &gocbcore.DcpScopeCreation{VbID: uint16(vb), SeqNo: o.SeqNo}, Offset: o}
	case 5:
		ev = models.DcpScopeDeletion{DcpScopeDeletion: &gocbcore.DcpScopeDeletion{VbID: uint16(vb), SeqNo: o.SeqNo}, Offset: o}
	default:
		ev = models.DcpCollectionModification{DcpCollectionModification: &gocbcore.DcpCollectionModification{VbID: uint16(vb), SeqNo: o.SeqNo}, Offset: o}
	}
	ss.s.listen(models.ListenerArgs{Event: ev})
	assert(len(ss.fc.consumed) == before, "non-document event is not shown to the consumer")
	ss.settled[vb] = append(ss.settled[vb], o)
	ss.advanced[vb] = true
	return o
}

func vDocIs(doc *models.CheckpointDocument, o *models.Offset) bool {
	return doc.Checkpoint.SeqNo == o.SeqNo &&
		doc.Checkpoint.VbUUID == uint64(o.VbUUID) &&
		doc.Checkpoint.Snapshot.StartSeqNo == o.StartSeqNo &&
		doc.Checkpoint.Snapshot.EndSeqNo == o.EndSeqNo
}

// docSettled: doc is, field for field, one of the first n settled offsets of vb.
func (ss *vSession) docSettled(vb int, doc *models.CheckpointDocument, n int) bool {
	found := false
	for i := 0; i < n; i++ {
		if vDocIs(doc, ss.settled[vb][i]) {
			found = true
		}
	}
	return found
}

// furthest returns the settled offset with the largest seqno (the tracked one).
func (ss *vSession) tracked(vb int) *models.Offset {
	o, _ := ss.s.offsets.Load(uint16(vb))
	return o
}

// vFewKinds: the harness varies history length or vBucket count, not event kinds
// (all kinds are explored by the base K=4, V=2 harnesses of the thorough tier).
var vFewKinds bool

func vControlKinds() int {
	if tierThorough() && !vFewKinds {
		return 7
	}
	return 2
}

func vDocKinds() int {
	if tierThorough() && !vFewKinds {
		return 3
	}
	return 1
}
