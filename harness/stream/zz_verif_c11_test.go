package stream

// C11 — rebalance converges to the latest assignment, once, without stopping the client.

import (
	"sync"
	"time"

	"github.com/Trendyol/go-dcp/models"
	"github.com/couchbase/gocbcore/v10"
)

const vDelay = 10 * time.Second

type vC11 struct {
	opensAtBRE int // number of stream requests made before the last reopen began
	fx       *vFixture
	member   int // current membership value: 1 -> vBuckets {0,1}, 2 -> {2,3}
	lastNote int64
	busLock  sync.Mutex
}

func vC11Setup(dynamic bool) *vC11 {
	c := &vC11{member: 1}
	c.fx = vNewFixture(func() []uint16 {
		if c.member == 1 {
			return []uint16{0, 1}
		}
		return []uint16{2, 3}
	})
	fx := c.fx
	fx.cfg.Dcp.Group.Membership.RebalanceDelay = vDelay
	fx.h.onEvent = func(name string) {
		if name == "BRE" {
			c.opensAtBRE = len(fx.cl.openCalls)
		}
	}
	if dynamic {
		fx.cfg.Dcp.Group.Membership.Type = "dynamic"
	} else {
		fx.cfg.Dcp.Group.Membership.Type = "couchbase"
	}
	fx.cl.high = [vTotalVB]uint64{^uint64(0), ^uint64(0), ^uint64(0), ^uint64(0)}
	// the server ends a closed stream with "stream closed", some time later
	fx.cl.onClose = func(vb uint16) {
		obs, ok := fx.s.observers.Load(vb)
		if ok {
			spawnEnv(func() { obs.End(models.DcpStreamEnd{VbID: vb}, gocbcore.ErrDCPStreamClosed) })
		}
	}
	// stored checkpoints for the vBuckets the member may move to
	for vb := uint16(0); vb < vTotalVB; vb++ {
		fx.fm.store[vb] = vDoc("stored")
	}
	return c
}

func vCount(log []vCallback, name string) int {
	n := 0
	for _, e := range log {
		if e.name == name {
			n++
		}
	}
	return n
}

// vBracketed: the callback log is (BSS ASS) then zero or more rebalance cycles
// BRS BSP ASP ARS BRE BSS ASS ARE.
func vBracketed(log []vCallback) bool {
	want := []string{"BSS", "ASS"}
	cycle := []string{"BRS", "BSP", "ASP", "ARS", "BRE", "BSS", "ASS", "ARE"}
	if len(log) < 2 || (len(log)-2)%len(cycle) != 0 {
		return false
	}
	for i, e := range log {
		var w string
		if i < 2 {
			w = want[i]
		} else {
			w = cycle[(i-2)%len(cycle)]
		}
		if e.name != w {
			return false
		}
	}
	return true
}

// H_C11_reopen: a second notification (new membership value) arrives while the
// reopen triggered by the first one is in progress, after the reopen has read
// the membership. It starts a new burst: the stream must converge to the
// latest membership by a second close/reopen cycle.
func H_C11_reopen() {
	setMerge(true)
	vC11Preempt()
	c := vC11Setup(false)
	fx := c.fx
	fx.s.Open()
	setHorizon(int64(5 * time.Minute))
	reopening := false
	fx.cl.openErr = func(vbID uint16, nth int) error {
		if reopening {
			time.Sleep(3 * time.Second) // the reopen takes a while
		}
		return nil
	}
	fx.h.onEvent = func(name string) {
		if name == "BRE" {
			c.opensAtBRE = len(fx.cl.openCalls)
			reopening = true
			thawSchedule() // every order of the reopen against the late notification
		}
		if name == "ARE" {
			reopening = false
			freezeSchedule() // the follow-up cycle is an ordinary one (C11_bus explores those)
		}
	}
	freezeSchedule() // the first close is an ordinary one
	spawnEnv(func() {
		c.busLock.Lock()
		c.member = 2
		fx.s.Rebalance()
		c.busLock.Unlock()
	})
	spawnEnv(func() {
		time.Sleep(vDelay + time.Second) // the first reopen is in progress, its membership read is done
		c.busLock.Lock()
		c.member = 1
		c.lastNote = nowNs()
		fx.s.Rebalance()
		c.busLock.Unlock()
	})
	quiesce()
	cover("during-reopen")
	c.check(vDelay, 2)
}

// vC11Check: the outcome of one burst of notifications whose latest value is `member`.
func (c *vC11) check(delay time.Duration, cycles int) {
	fx := c.fx
	assert(!vStopClosed(fx.stop), "a rebalance never terminates the client")
	assert(vBracketed(fx.h.log), "lifecycle callbacks are properly bracketed")
	assert(vCount(fx.h.log, "BSP") == cycles, "the stream is closed once per burst")
	assert(vCount(fx.h.log, "BSS") == 1+cycles, "the stream is reopened exactly once per burst")
	assert(fx.s.IsOpen(), "the stream is open again")
	if cycles == 0 {
		return
	}
	// the last BRE (start of the reopen) is not before last notification + delay
	var bre int64 = -1
	for _, e := range fx.h.log {
		if e.name == "BRE" {
			bre = e.at
		}
	}
	assert(bre >= c.lastNote+int64(delay), "reopen waits for the configured delay after the last notification of the burst")
	// the reopen requested exactly the range of the latest membership, at the stored checkpoints
	want := []uint16{0, 1}
	if c.member == 2 {
		want = []uint16{2, 3}
	}
	reopen := fx.cl.openCalls[c.opensAtBRE:]
	assert(len(reopen) == 2, "one request per vBucket of the new range")
	for _, oc := range reopen {
		assert(oc.vbID == want[0] || oc.vbID == want[1], "reopened on the vBucket range of the most recent membership")
		d := fx.fm.store[oc.vbID].Checkpoint
		assert(oc.seq == d.SeqNo && uint64(oc.vbUUID) == d.VbUUID, "resumed from the stored checkpoint")
	}
	_, n := fx.s.GetMetric()
	assert(n == 2, "both vBuckets of the new range are streaming")
}

// H_C11_bus: k notifications from the event bus (a handler invocation starts
// only after the previous one returned), each at an arbitrary instant inside
// the burst, each carrying an arbitrary membership value.
func H_C11_bus() {
	// two notifications, every order at blocking points, in both tiers: a third notification
	// (no verdict within 15 minutes) or a pre-emption on top (none within half an hour) are
	// beyond what this harness decides - measured
	vC11Bus(2, 0)
}

func vC11Bus(k int, preempt int) {
	setMerge(true)
	setPreempt(preempt)
	sharedFields("balancing", "rebalanceTimer")
	c := vC11Setup(false)
	fx := c.fx
	fx.s.Open()
	setHorizon(int64(5 * time.Minute))
	gaps := []time.Duration{0, 4 * time.Second, 9 * time.Second}
	at := time.Duration(0)
	for i := 0; i < k; i++ {
		val := 2
		if i > 0 {
			// the first notification arrives at t=0 and changes the assignment; later ones are arbitrary
			g := gaps
			if i >= 2 {
				g = []time.Duration{0, 9 * time.Second} // third notification: back to back or at the far end of the window
			}
			at += g[choose("gap", len(g))]
			val = 1 + choose("member", 2)
		}
		when := at
		spawnEnv(func() {
			time.Sleep(when)
			c.busLock.Lock()
			c.member = val
			c.lastNote = nowNs()
			fx.s.Rebalance()
			c.busLock.Unlock()
		})
	}
	quiesce()
	cover("burst-done")
	c.check(vDelay, 1)
}

// H_C11_api: two unserialised callers (the /rebalance endpoint checks IsOpen and calls Rebalance).
func H_C11_api() {
	setMerge(true)
	setPreempt(0) // one pre-emption on top of the plain-field scheduling points below exceeds 2*10^6 paths (measured): both tiers explore every order at blocking points
	sharedFields("balancing", "rebalanceTimer", "open")
	c := vC11Setup(false)
	fx := c.fx
	fx.s.Open()
	setHorizon(int64(5 * time.Minute))
	gaps := []time.Duration{0, 3 * time.Second}
	called := 0
	racedFirstClose := false
	for i := 0; i < 2; i++ {
		when := time.Duration(0)
		val := 2
		if i > 0 {
			when = gaps[choose("gap", len(gaps))]
			val = 1 + choose("member", 2)
		}
		spawnEnv(func() {
			time.Sleep(when)
			c.member = val
			if fx.s.IsOpen() {
				called++
				c.lastNote = nowNs()
				if fx.s.balancing && fx.s.rebalanceTimer == nil {
					// this caller enters while another one is inside the close of the very first rebalance cycle
					racedFirstClose = true
					freezeSchedule() // known finding: one witness schedule is enough from here
				}
				fx.s.Rebalance()
			}
		})
	}
	quiesce()
	cover("api-done")
	assert(called >= 1, "at least one call went through")
	if racedFirstClose {
		// kept apart: known finding; any other double close is still reported under the general label
		assert(vCount(fx.h.log, "BSP") == 1, "API call arriving during the close of the first rebalance cycle does not cause a second cycle")
		return
	}
	c.check(vDelay, 1)
}

// H_C11_dynamic: dynamic membership reopens immediately.
func H_C11_dynamic() {
	setMerge(true)
	vC11Preempt()
	c := vC11Setup(true)
	fx := c.fx
	fx.s.Open()
	setHorizon(int64(5 * time.Minute))
	c.member = 2
	c.lastNote = nowNs()
	fx.s.Rebalance()
	quiesce()
	cover("dynamic-done")
	c.check(0, 1)
}

// quick: goroutines switch where they block (every order at blocking points);
// thorough: one additional pre-emption anywhere.
func vC11Preempt() {
	if tierThorough() {
		setPreempt(1)
	} else {
		setPreempt(0)
	}
}

// H_C11_dropclose: while the rebalance closes the streams, the connection of
// vBucket 0 drops: its stream ends with a transient cause ("socket closed",
// "state changed") instead of "stream closed". The rebalance still converges:
// no crash, the client keeps running, the stream is reopened once on the latest
// range, and nothing of the abandoned session is left open or requested again.
func H_C11_dropclose() {
	setMerge(true)
	setPreempt(0) // every order at blocking points in both tiers (one pre-emption on top: > 4*10^5 paths in five minutes and counting, measured)
	c := vC11Setup(nondetBool("dynamic"))
	fx := c.fx
	cause := []error{gocbcore.ErrSocketClosed, gocbcore.ErrDCPStreamStateChanged}[choose("cause", 2)]
	keep := choose("same-range-after", 2) == 1 // the member keeps its range (pure renumbering elsewhere) or moves
	fx.cl.onClose = func(vb uint16) {
		obs, ok := fx.s.observers.Load(vb)
		if ok {
			e := error(gocbcore.ErrDCPStreamClosed)
			if vb == 0 {
				e = cause
			}
			spawnEnv(func() { obs.End(models.DcpStreamEnd{VbID: vb}, e) })
		}
	}
	fx.s.Open()
	setHorizon(int64(5 * time.Minute))
	if !keep {
		c.member = 2
	}
	c.lastNote = nowNs()
	opensBefore := len(fx.cl.openCalls)
	p, _ := expectPanic(func() {
		fx.s.Rebalance()
		quiesce()
	})
	assert(!p, "a connection drop during the rebalance close does not crash the client")
	cover("drop-during-close")
	assert(!vStopClosed(fx.stop), "a rebalance never terminates the client")
	assert(fx.s.IsOpen(), "the stream is open again")
	reopen := fx.cl.openCalls[opensBefore:]
	assert(len(reopen) == 2, "exactly one request per vBucket of the new range, none for the abandoned session")
	_, n := fx.s.GetMetric()
	assert(n == 2, "both vBuckets of the new range are streaming")
}

// H_C05_window: a save issued while the stream is closed for a rebalance (the
// application's Commit(), or the last tick of the stopped checkpoint schedule)
// with progress that was acknowledged but not yet saved when the rebalance
// began. Over a backend that stores the whole state per save (the file backend)
// such a save must not destroy the checkpoints already stored: after the
// reopen every vBucket resumes at its stored position.
func H_C05_window() {
	setMerge(true)
	setPreempt(0)
	c := vC11Setup(false)
	fx := c.fx
	fx.fm.wholeState = true
	fx.s.Open()
	setHorizon(int64(5 * time.Minute))
	before := map[uint16]*models.CheckpointDocument{}
	for vb, d := range fx.fm.store {
		before[vb] = d
	}
	// progress on vBucket 0 that no save has stored yet
	if nondetBool("unsaved-progress") {
		o := vOffset("ev")
		cur, _ := fx.s.offsets.Load(0)
		assume(o.SeqNo > cur.SeqNo)
		fx.s.listen(models.ListenerArgs{Event: models.DcpSeqNoAdvanced{DcpSeqNoAdvanced: &gocbcore.DcpSeqNoAdvanced{VbID: 0, SeqNo: o.SeqNo}, Offset: o}})
		cover("unsaved-progress")
	}
	// an event of vBucket 1 the consumer is still working on when the rebalance begins
	lateAck := nondetBool("late-ack-in-window")
	if lateAck {
		o := vOffset("held")
		cur, _ := fx.s.offsets.Load(1)
		assume(o.SeqNo > cur.SeqNo)
		fx.s.listen(models.ListenerArgs{Event: models.DcpMutation{DcpMutation: vMutation(1, o.SeqNo, []byte("k")), Offset: o}})
	}
	if choose("range", 2) == 1 {
		c.member = 2
	}
	c.lastNote = nowNs()
	fx.s.Rebalance() // the stream is closed, the reopen is pending
	time.Sleep(vDelay / 2)
	if lateAck {
		fx.fc.consumed[len(fx.fc.consumed)-1].Ack() // acknowledged only now, inside the window
		cover("late-ack-in-window")
	}
	saves := len(fx.fm.calls)
	fx.s.Save() // Commit() / the schedule's last tick inside the window
	cover("save-in-window")
	for vb, d := range before {
		got, ok := fx.fm.store[vb]
		assert(ok, "a save inside the rebalance window does not wipe a stored checkpoint")
		assert(got == d || len(fx.fm.calls) == saves, "nor replace it")
	}
	quiesce()
	c.check(vDelay, 1)
}
