package stream

// C12 — stream ends are recovered, counted and terminate the client correctly.

import (
	"errors"
	"fmt"

	"github.com/Trendyol/go-dcp/models"
	"github.com/couchbase/gocbcore/v10"
)

func vStopClosed(ch chan struct{}) bool {
	select {
	case _, ok := <-ch:
		return !ok
	default:
		return false
	}
}

// vEndCause returns (error, transient?) for cause index i.
func vEndCause(i int) (error, bool) {
	switch i {
	case 0:
		return nil, false
	case 1:
		return gocbcore.ErrSocketClosed, true
	case 2:
		return fmt.Errorf("wrapped: %w", gocbcore.ErrDCPStreamTooSlow), true
	case 3:
		return gocbcore.ErrDCPStreamClosed, false
	case 4:
		return errors.New("unrelated failure"), false
	case 5:
		return gocbcore.ErrDCPBackfillFailed, true
	case 6:
		return gocbcore.ErrDCPStreamStateChanged, true
	case 7:
		return gocbcore.ErrDCPStreamTooSlow, true
	case 8:
		return gocbcore.ErrDCPStreamDisconnected, true
	case 9:
		return fmt.Errorf("wrapped: %w", gocbcore.ErrSocketClosed), true
	case 10:
		return fmt.Errorf("wrapped: %w", gocbcore.ErrDCPBackfillFailed), true
	case 11:
		return fmt.Errorf("wrapped: %w", gocbcore.ErrDCPStreamStateChanged), true
	default:
		return fmt.Errorf("wrapped: %w", gocbcore.ErrDCPStreamDisconnected), true
	}
}

// H_C12_ends: a session with V=2 open vBuckets receives K stream-end events,
// each for an arbitrary still-streaming vBucket with an arbitrary cause.
func H_C12_ends() {
	setMerge(true)
	setPreempt(1)
	K := 3
	ncause := 5
	if tierThorough() {
		K, ncause = 4, 13
	}
	fx := vNewFixture(func() []uint16 { return []uint16{0, 1} })
	fx.cl.high = [vTotalVB]uint64{^uint64(0), ^uint64(0), 0, 0}
	fx.s.Open()
	assert(len(fx.cl.openCalls) == 2, "opened")
	_, n0 := fx.s.GetMetric()
	assert(n0 == 2, "active-stream count starts at the number of assigned vBuckets")
	// move the tracked position of both vBuckets past the loaded one
	fx.fc.onConsume = func(ctx *models.ListenerContext) { ctx.Ack() }
	var settled [2]*models.Offset
	for vb := 0; vb < 2; vb++ {
		settled[vb] = vOffset("settled")
		assume(settled[vb].SeqNo > 0)
		fx.s.listen(models.ListenerArgs{Event: models.DcpMutation{
			DcpMutation: &gocbcore.DcpMutation{VbID: uint16(vb), SeqNo: settled[vb].SeqNo, Key: []byte("k")}, Offset: settled[vb]}})
	}
	closeWithCancel := nondetBool("closeWithCancel")
	fx.s.closeWithCancel = closeWithCancel
	ended := [2]bool{}
	live := 2
	opens := [2]int{1, 1}
	for i := 0; i < K && live > 0; i++ {
		// pick a vBucket that is still streaming
		vb := choose("vb", 2)
		assume(!ended[vb])
		cause, transient := vEndCause(choose("cause", ncause))
		obs, ok := fx.s.observers.Load(uint16(vb))
		assert(ok, "observer present")
		obs.End(models.DcpStreamEnd{VbID: uint16(vb)}, cause)
		quiesce()
		recovers := transient && !closeWithCancel
		if recovers {
			cover("transient-reopened")
			opens[vb]++
			calls := fx.openCallsFor(uint16(vb))
			assert(len(calls) == opens[vb], "a transient end re-requests the vBucket exactly once")
			last := calls[len(calls)-1]
			assert(last.offset == settled[vb], "re-opened from the latest settled position")
		} else {
			cover("final-end")
			ended[vb] = true
			live--
			assert(len(fx.openCallsFor(uint16(vb))) == opens[vb], "a final end is not re-requested")
		}
		_, n := fx.s.GetMetric()
		assert(int(n) == live, "active-stream count equals the assigned vBuckets not yet finally ended")
		assert(vStopClosed(fx.stop) == (live == 0), "the client stops on its own iff every assigned vBucket has ended for good")
	}
	if live == 0 {
		cover("all-ended")
	}
}
