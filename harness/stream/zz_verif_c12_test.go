package stream

// C12 — stream ends are recovered, counted and terminate the client correctly.

import (
	"errors"
	"fmt"
	"time"

	"github.com/Trendyol/go-dcp/models"
	"github.com/couchbase/gocbcore/v10"
)

func vStopClosed(ch chan struct{}) bool {
	select {
	case _, ok := <-ch:
		return !ok
	default:
		return false
	}
}

// vEndCause returns (error, transient?) for cause index i.
func vEndCause(i int) (error, bool) {
	switch i {
	case 0:
		return nil, false
	case 1:
		return gocbcore.ErrSocketClosed, true
	case 2:
		return fmt.Errorf("wrapped: %w", gocbcore.ErrDCPStreamTooSlow), true
	case 3:
		return gocbcore.ErrDCPStreamClosed, false
	case 4:
		return errors.New("unrelated failure"), false
	case 5:
		return gocbcore.ErrDCPBackfillFailed, true
	case 6:
		return gocbcore.ErrDCPStreamStateChanged, true
	case 7:
		return gocbcore.ErrDCPStreamTooSlow, true
	case 8:
		return gocbcore.ErrDCPStreamDisconnected, true
	case 9:
		return fmt.Errorf("wrapped: %w", gocbcore.ErrSocketClosed), true
	case 10:
		return fmt.Errorf("wrapped: %w", gocbcore.ErrDCPBackfillFailed), true
	case 11:
		return fmt.Errorf("wrapped: %w", gocbcore.ErrDCPStreamStateChanged), true
	default:
		return fmt.Errorf("wrapped: %w", gocbcore.ErrDCPStreamDisconnected), true
	}
}

// H_C12_ends: a session with V=2 open vBuckets receives K stream-end events,
// each for an arbitrary still-streaming vBucket with an arbitrary cause.
func H_C12_ends() {
	setMerge(true)
	setPreempt(1)
	K := 3
	ncause := 5
	if tierThorough() {
		K, ncause = 3, 13 // K=4 over 13 causes exceeds the 2*10^6 path budget (measured): the cause set is widened instead
	}
	fx := vNewFixture(func() []uint16 { return []uint16{0, 1} })
	fx.cl.high = [vTotalVB]uint64{^uint64(0), ^uint64(0), 0, 0}
	fx.s.Open()
	assert(len(fx.cl.openCalls) == 2, "opened")
	_, n0 := fx.s.GetMetric()
	assert(n0 == 2, "active-stream count starts at the number of assigned vBuckets")
	// move the tracked position of both vBuckets past the loaded one
	fx.fc.onConsume = func(ctx *models.ListenerContext) { ctx.Ack() }
	var settled [2]*models.Offset
	for vb := 0; vb < 2; vb++ {
		settled[vb] = vOffset("settled")
		assume(settled[vb].SeqNo > 0)
		fx.s.listen(models.ListenerArgs{Event: models.DcpMutation{
			DcpMutation: &gocbcore.DcpMutation{VbID: uint16(vb), SeqNo: settled[vb].SeqNo, Key: []byte("k")}, Offset: settled[vb]}})
	}
	closeWithCancel := nondetBool("closeWithCancel")
	fx.s.closeWithCancel = closeWithCancel
	ended := [2]bool{}
	live := 2
	opens := [2]int{1, 1}
	for i := 0; i < K && live > 0; i++ {
		// pick a vBucket that is still streaming
		vb := choose("vb", 2)
		assume(!ended[vb])
		cause, transient := vEndCause(choose("cause", ncause))
		obs, ok := fx.s.observers.Load(uint16(vb))
		assert(ok, "observer present")
		obs.End(models.DcpStreamEnd{VbID: uint16(vb)}, cause)
		recovers := transient && !closeWithCancel
		{
			// the count is right at every instant, also while a re-open is still in flight
			liveNow := live
			if !recovers {
				liveNow--
			}
			_, nNow := fx.s.GetMetric()
			assert(int(nNow) == liveNow, "active-stream count is exact immediately after the end event")
		}
		quiesce()
		if recovers {
			cover("transient-reopened")
			opens[vb]++
			calls := fx.openCallsFor(uint16(vb))
			assert(len(calls) == opens[vb], "a transient end re-requests the vBucket exactly once")
			last := calls[len(calls)-1]
			assert(last.offset == settled[vb], "re-opened from the latest settled position")
		} else {
			cover("final-end")
			ended[vb] = true
			live--
			assert(len(fx.openCallsFor(uint16(vb))) == opens[vb], "a final end is not re-requested")
		}
		_, n := fx.s.GetMetric()
		assert(int(n) == live, "active-stream count equals the assigned vBuckets not yet finally ended")
		assert(vStopClosed(fx.stop) == (live == 0), "the client stops on its own iff every assigned vBucket has ended for good")
	}
	if live == 0 {
		cover("all-ended")
	}
}

// H_C12_overlap: a transient end on vBucket 0 whose re-open is slow, and the
// final end of vBucket 1 arriving while that re-open is still in flight.
func H_C12_overlap() {
	setPreempt(1)
	fx := vNewFixture(func() []uint16 { return []uint16{0, 1} })
	fx.cl.high = [vTotalVB]uint64{^uint64(0), ^uint64(0), 0, 0}
	fx.s.Open()
	slow := true
	fx.cl.openErr = func(vbID uint16, nth int) error {
		if nth > 0 && slow {
			time.Sleep(2 * time.Second) // the re-open takes a while
		}
		return nil
	}
	cause, _ := vEndCause(1 + choose("cause", 2)) // socket closed / wrapped too-slow
	o0, _ := fx.s.observers.Load(0)
	o1, _ := fx.s.observers.Load(1)
	o0.End(models.DcpStreamEnd{VbID: 0}, cause)
	// re-open of vBucket 0 is in flight (its goroutine sleeps); vBucket 1 ends for good now
	final, _ := vEndCause([]int{0, 3, 4}[choose("final", 3)])
	o1.End(models.DcpStreamEnd{VbID: 1}, final)
	_, n := fx.s.GetMetric()
	assert(n == 1, "one vBucket (the one being re-opened) is still counted")
	assert(!vStopClosed(fx.stop), "the client keeps running while a transiently ended vBucket is being re-opened")
	quiesce()
	assert(len(fx.openCallsFor(0)) == 2, "vBucket 0 was re-requested")
	_, n = fx.s.GetMetric()
	assert(n == 1 && !vStopClosed(fx.stop), "still streaming vBucket 0 after the re-open")
	cover("overlap")
	// now vBucket 0 ends for good too
	o0.End(models.DcpStreamEnd{VbID: 0}, final)
	quiesce()
	_, n = fx.s.GetMetric()
	assert(n == 0 && vStopClosed(fx.stop), "the client stops once every vBucket has ended for good")
}

// H_C12_earlyend: a vBucket ends for good while Open() is still opening the
// others (finite mode with a checkpoint already at the high seqno: the server
// ends the stream at once).
func H_C12_earlyend() {
	setPreempt(1)
	fx := vNewFixture(func() []uint16 { return []uint16{0, 1} })
	fx.cl.high = [vTotalVB]uint64{^uint64(0), ^uint64(0), 0, 0}
	fx.cl.openErr = func(vbID uint16, nth int) error {
		if vbID == 0 && nth == 0 {
			obs, _ := fx.s.observers.Load(0)
			if nondetBool("inline") {
				obs.End(models.DcpStreamEnd{VbID: 0}, nil)
			} else {
				spawnEnv(func() { obs.End(models.DcpStreamEnd{VbID: 0}, nil) })
			}
		}
		return nil
	}
	fx.s.Open()
	quiesce()
	_, n := fx.s.GetMetric()
	assert(n == 1, "a vBucket that ended during start-up is not counted as streaming")
	assert(!vStopClosed(fx.stop), "the other vBucket is still streaming")
	cover("early-end")
	o1, _ := fx.s.observers.Load(1)
	o1.End(models.DcpStreamEnd{VbID: 1}, nil)
	quiesce()
	_, n = fx.s.GetMetric()
	assert(n == 0 && vStopClosed(fx.stop), "the client stops once the last vBucket has ended for good")
}

// H_C12_earlytransient: a vBucket's stream ends with a TRANSIENT cause (its node
// drops) right after its open request succeeded, while Open() is still opening
// the other vBucket. It is reopened from its position and counted as streaming;
// the client stops only after both have ended for good.
func H_C12_earlytransient() {
	setPreempt(1)
	fx := vNewFixture(func() []uint16 { return []uint16{0, 1} })
	fx.cl.high = [vTotalVB]uint64{^uint64(0), ^uint64(0), 0, 0}
	cause := []error{gocbcore.ErrSocketClosed, gocbcore.ErrDCPStreamStateChanged, gocbcore.ErrDCPStreamTooSlow}[choose("cause", 3)]
	fx.cl.openErr = func(vbID uint16, nth int) error {
		if vbID == 0 && nth == 0 {
			obs, _ := fx.s.observers.Load(0)
			if nondetBool("inline") {
				obs.End(models.DcpStreamEnd{VbID: 0}, cause)
			} else {
				spawnEnv(func() { obs.End(models.DcpStreamEnd{VbID: 0}, cause) })
			}
		}
		return nil
	}
	fx.s.Open()
	quiesce()
	_, n := fx.s.GetMetric()
	assert(n == 2, "a vBucket whose stream ended transiently during start-up still counts as streaming")
	opens0 := 0
	for _, c := range fx.cl.openCalls {
		if c.vbID == 0 {
			opens0++
		}
	}
	assert(opens0 == 2, "it is requested again exactly once")
	assert(!vStopClosed(fx.stop), "the client keeps running")
	cover("early-transient-end")
	o0, _ := fx.s.observers.Load(0)
	o1, _ := fx.s.observers.Load(1)
	o1.End(models.DcpStreamEnd{VbID: 1}, nil)
	quiesce()
	_, n = fx.s.GetMetric()
	assert(n == 1 && !vStopClosed(fx.stop), "one vBucket still streaming")
	o0.End(models.DcpStreamEnd{VbID: 0}, nil)
	quiesce()
	_, n = fx.s.GetMetric()
	assert(n == 0 && vStopClosed(fx.stop), "the client stops once every vBucket has ended for good")
}
