package wrapper

// Translator self-check for the one data structure the engine MODELS instead of
// interpreting: github.com/mhmtszr/concurrent-swiss-map behind
// ConcurrentSwissMap. The same harness runs symbolically in the engine (the
// model) and natively with sample values (the real library); both must agree
// with a plain Go map used as the reference. It starts with the repository's own
// TestSyncMapWrapper input.

func init() {
	vHarnesses["SELFLIB_csmap"] = H_SELFLIB_csmap
}

func H_SELFLIB_csmap() {
	p := CreateConcurrentSwissMap[string, string](0)
	p.Store("key", "value")
	v, ok := p.Load("key")
	assert(ok && v == "value", "TestSyncMapWrapper: stored value is loaded")

	m := CreateConcurrentSwissMap[uint16, uint64](1024)
	ref := map[uint16]uint64{}
	// keys from a small set (so that they collide), values arbitrary
	k := [3]uint16{uint16(7 + choose("k0", 2)), uint16(7 + choose("k1", 2)), uint16(8 + choose("k2", 2))}
	x := [3]uint64{nondetU64("x"), nondetU64("x"), nondetU64("x")}
	n := choose("n", 7)
	for step := 0; step < 6; step++ {
		i := (step + n) % 3
		switch (step*3 + n) % 5 {
		case 0:
			m.Store(k[i], x[i])
			ref[k[i]] = x[i]
		case 1:
			m.Delete(k[i])
			delete(ref, k[i])
		case 2: // conditional store: only if absent
			m.StoreIf(k[i], func(prev uint64, found bool) (uint64, bool) {
				return x[i] + 1, !found
			})
			if _, found := ref[k[i]]; !found {
				ref[k[i]] = x[i] + 1
			}
		case 3: // conditional store: only raise
			m.StoreIf(k[i], func(prev uint64, found bool) (uint64, bool) {
				return x[i], found && prev < x[i]
			})
			if prev, found := ref[k[i]]; found && prev < x[i] {
				ref[k[i]] = x[i]
			}
		default:
			got, okm := m.Load(k[i])
			want, okr := ref[k[i]]
			assert(okm == okr && (!okm || got == want), "Load agrees with the reference map")
		}
		assert(m.Count() == len(ref), "Count agrees with the reference map")
	}
	seen := 0
	var sum uint64
	m.Range(func(key uint16, val uint64) bool {
		want, okr := ref[key]
		assert(okr && want == val, "Range visits only present pairs")
		seen++
		sum += val
		return true
	})
	assert(seen == len(ref), "Range visits every pair exactly once")
	first := 0
	m.Range(func(uint16, uint64) bool { first++; return false })
	assert(first == 0 || first == 1, "Range stops when the callback says so")
	tm := m.ToMap()
	assert(len(tm) == len(ref), "ToMap has every pair")
	for key, val := range ref {
		assert(tm[key] == val, "ToMap agrees with the reference map")
	}
	cover("csmap")
}
