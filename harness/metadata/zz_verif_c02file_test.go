package metadata

// C02 (file backend) — save then load through fileMetadata; the file system and
// the JSON text are modelled (sonic as an exact inverse pair over tokens, one
// in-memory file).

import (
	"errors"
	"io/fs"

	"github.com/Trendyol/go-dcp/config"
	"github.com/Trendyol/go-dcp/models"
)

var vFile []byte
var vFileExists bool
var vTokens []interface{}

func stub__os_WriteFile(name string, data []byte, perm fs.FileMode) error {
	vFile, vFileExists = data, true
	return nil
}

// vFileBroken: the checkpoint path cannot be accessed at all (a parent component is
// a regular file, no permission, I/O error): every access fails with vErrIO.
var vFileBroken bool
var vErrIO = errors.New("checkpoint store: input/output error")

func stub__os_Stat(name string) (fs.FileInfo, error) {
	if vFileBroken {
		return nil, vErrIO
	}
	if !vFileExists {
		return nil, fs.ErrNotExist
	}
	return nil, nil
}

func stub__os_ReadFile(name string) ([]byte, error) {
	if vFileBroken {
		return nil, vErrIO
	}
	if !vFileExists {
		return nil, fs.ErrNotExist
	}
	return vFile, nil
}

func stub__os_Remove(name string) error {
	vFileExists = false
	return nil
}

func stub__sonic_MarshalIndent(v interface{}, prefix, indent string) ([]byte, error) {
	vTokens = append(vTokens, v)
	return []byte{byte(len(vTokens) - 1)}, nil
}

func stub__sonic_Unmarshal(buf []byte, val interface{}) error {
	if len(buf) != 1 || int(buf[0]) >= len(vTokens) {
		return errors.New("corrupt")
	}
	src, ok := vTokens[buf[0]].(map[uint16]*models.CheckpointDocument)
	dst, ok2 := val.(*map[uint16]*models.CheckpointDocument)
	if !ok || !ok2 {
		return errors.New("corrupt")
	}
	out := map[uint16]*models.CheckpointDocument{}
	for k, d := range src {
		c := *d
		cc := *d.Checkpoint
		cs := *d.Checkpoint.Snapshot
		cc.Snapshot = &cs
		c.Checkpoint = &cc
		out[k] = &c
	}
	*dst = out
	return nil
}

func vDoc(tag string) *models.CheckpointDocument {
	return &models.CheckpointDocument{Checkpoint: &models.CheckpointDocumentCheckpoint{
		VbUUID: nondetU64(tag + ".vbuuid"), SeqNo: nondetU64(tag + ".seq"),
		Snapshot: &models.CheckpointDocumentSnapshot{StartSeqNo: nondetU64(tag + ".start"), EndSeqNo: nondetU64(tag + ".end")}},
		BucketUUID: "b"}
}

func H_C02_file() {
	vFile, vFileExists, vTokens = nil, false, nil
	cfg := &config.Dcp{}
	cfg.Metadata.Type = "file"
	cfg.Metadata.Config = map[string]string{"fileName": "checkpoint.json"}
	md := NewFSMetadata(cfg)
	// no file yet: every requested vBucket loads as empty, "no checkpoint exists"
	st, exist, err := md.Load([]uint16{0, 1}, "b")
	assert(err == nil && !exist, "no file: nothing exists")
	e0, ok := st.Load(0)
	assert(ok && e0.Checkpoint.SeqNo == 0 && e0.Checkpoint.VbUUID == 0, "no file: empty checkpoints")
	in := map[uint16]*models.CheckpointDocument{0: vDoc("a"), 1: vDoc("b")}
	// the file backend stores the whole state whatever the dirty flags say
	assert(md.Save(in, map[uint16]bool{0: true}, "b") == nil, "save")
	out, exist2, err2 := md.Load([]uint16{0, 1}, "b")
	assert(err2 == nil && exist2, "after a save the checkpoint exists")
	for vb, want := range in {
		got, ok := out.Load(vb)
		assert(ok && got.Checkpoint.SeqNo == want.Checkpoint.SeqNo && got.Checkpoint.VbUUID == want.Checkpoint.VbUUID &&
			got.Checkpoint.Snapshot.StartSeqNo == want.Checkpoint.Snapshot.StartSeqNo && got.Checkpoint.Snapshot.EndSeqNo == want.Checkpoint.Snapshot.EndSeqNo,
			"save then load through the file backend is lossless for every 64-bit field value")
	}
	// read-only wrapper over the file backend
	ro := NewReadMetadata(md)
	before := len(vTokens)
	assert(ro.Save(map[uint16]*models.CheckpointDocument{0: vDoc("x")}, map[uint16]bool{0: true}, "b") == nil && len(vTokens) == before, "read-only mode writes nothing")
	cover("file")
}

// H_C15_fileload: a checkpoint store that cannot be read is reported, never
// taken for a first start (stream.checkpoint.Load stops the client on the error:
// C15_load); an absent file is a clean first start.
func H_C15_fileload() {
	vFile, vFileExists, vTokens = nil, false, nil
	vFileBroken = nondetBool("broken")
	if nondetBool("stored-before") {
		vFile, vFileExists = []byte("{}"), true
	}
	cfg := &config.Dcp{}
	cfg.Metadata.Type = "file"
	cfg.Metadata.Config = map[string]string{"fileName": "checkpoint.json"}
	md := NewFSMetadata(cfg)
	st, exist, err := md.Load([]uint16{0, 1}, "b")
	if vFileBroken {
		cover("unreadable")
		assert(err != nil, "an unreadable checkpoint store is reported as an error, not as 'no checkpoint yet'")
	} else if !vFileExists {
		cover("first-start")
		assert(err == nil && !exist && st != nil, "an absent file is a clean first start")
	}
	vFileBroken = false
}
