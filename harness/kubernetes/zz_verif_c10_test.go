package kubernetes

// C10 (stateful-set ordinal): hostname "<name>-<ordinal>".

import "github.com/Trendyol/go-dcp/config"

var vHost string
var vHostErr error

func stub__os_Hostname() (string, error) { return vHost, vHostErr }

func H_C10_statefulset() {
	setMerge(true)
	nd := concretize(nondetInt("ndigits"), 1, 3)
	digits := nondetStr("ordinal", nd)
	want := 0
	for i := 0; i < nd; i++ {
		assume(digits[i] >= '0' && digits[i] <= '9')
		want = want*10 + int(digits[i]-'0')
	}
	prefix := nondetStr("name", 2)
	assume(prefix[0] < 0x80 && prefix[1] < 0x80)
	vHost = prefix + "-" + digits
	total := nondetInt("total")
	cfg := &config.Dcp{}
	cfg.Dcp.Group.Membership.TotalMembers = total
	var m interface{ GetInfo() interface{} }
	_ = m
	p, _ := expectPanic(func() {
		ms := NewStatefulSetMembership(cfg)
		i := ms.GetInfo()
		assert(i.MemberNumber == want+1, "member number is the pod ordinal + 1")
		assert(i.TotalMembers == total, "group size is the configured one")
		assert(i.MemberNumber >= 1 && i.MemberNumber <= i.TotalMembers, "numbers lie in 1..size")
	})
	assert(p == (want+1 > total), "a pod whose ordinal exceeds the group size refuses to start")
	if p {
		cover("refused")
	} else {
		cover("numbered")
	}
}
