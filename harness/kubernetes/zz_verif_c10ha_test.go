package kubernetes

// C10 (Kubernetes HA membership: leader-assigned numbering received over the bus): the member follows the numbering announced over the bus.

import "github.com/Trendyol/go-dcp/membership"

type vHaBus struct {
	handler func(*membership.Model)
	unsub   int
}

func (b *vHaBus) Subscribe(string, interface{}) error { return nil }
func (b *vHaBus) SubscribeAsync(_ string, fn interface{}, _ bool) error {
	b.handler = fn.(func(*membership.Model))
	return nil
}
func (b *vHaBus) SubscribeOnce(string, interface{}) error      { return nil }
func (b *vHaBus) SubscribeOnceAsync(string, interface{}) error { return nil }
func (b *vHaBus) Unsubscribe(string, interface{}) error        { b.unsub++; return nil }
func (b *vHaBus) Publish(string, ...interface{})               {}
func (b *vHaBus) HasCallback(string) bool                      { return false }
func (b *vHaBus) WaitAsync()                                   {}

// H_C10_ha: start-up asks for the numbering before, between or after three
// announcements with arbitrary (number, size) pairs. The first answer is the
// first announced pair (the call waits for it, it never invents one), every
// later answer is the most recently announced pair, and no announcement leaves
// a goroutine behind.
func H_C10_ha() {
	setPreempt(1)
	bus := &vHaBus{}
	m := NewHaMembership(nil, bus)
	assert(bus.handler != nil, "subscribed to membership announcements")
	var ann [3]*membership.Model
	for i := range ann {
		ann[i] = &membership.Model{MemberNumber: nondetInt("n"), TotalMembers: nondetInt("t")}
	}
	askAt := choose("first-ask-before-announcement", 3) // the first GetInfo is issued before announcement #askAt
	var first *membership.Model
	done := false
	for i := 0; i < 3; i++ {
		if i == askAt {
			spawnEnv(func() {
				first = m.GetInfo()
				done = true
			})
		}
		bus.handler(ann[i])
		if done {
			got := m.GetInfo()
			assert(got.MemberNumber == ann[i].MemberNumber && got.TotalMembers == ann[i].TotalMembers, "the numbering in effect is the most recently announced one")
		}
	}
	quiesce()
	assert(done && first != nil, "the waiting start-up is released by an announcement")
	ok := false
	for i := 0; i < 3; i++ {
		if first.MemberNumber == ann[i].MemberNumber && first.TotalMembers == ann[i].TotalMembers {
			ok = true
		}
	}
	assert(ok, "the first answer is an announced numbering, never an invented one")
	if askAt == 0 {
		cover("asked-before-any-announcement")
	}
	last := m.GetInfo()
	assert(last.MemberNumber == ann[2].MemberNumber && last.TotalMembers == ann[2].TotalMembers, "finally the last announced numbering is in effect")
	// an announcement that arrives before the asker is actually waiting parks its hand-over
	// goroutine on the unbuffered channel for good (GetInfo then answers from the stored
	// value): at most one leaked goroutine per process, outside what C10 states
	assert(blockedThreads() <= 1, "at most the one unclaimed hand-over goroutine remains")
	m.Close()
	assert(bus.unsub == 1, "Close unsubscribes")
	cover("ha")
}
