#!/bin/bash
# usage: seedtest.sh <seed-id> <src-out-dir> <demo-file> <pkg-dir> <check-id> [more check ids]
# 1. confirms the seeded change in a scratch worktree (demo passes without, fails with; suite passes with)
# 2. runs the given checks against /repo with the change applied, then reverts /repo
# 3. stores patch, demo and meta.json under /verif/seeded/<seed-id>/
set -u
id="$1"; src="$2"; demo="$3"; pkg="$4"; shift 4
export GOFLAGS=-mod=mod GOPROXY=off GOSUMDB=off GOTOOLCHAIN=local
wt=/tmp/sv-$id
git -C /repo worktree remove --force $wt 2>/dev/null
git -C /repo worktree add -q --detach $wt HEAD || exit 2
cp "$src/$demo" "$wt/$pkg/zz_seed_demo_test.go"
( cd $wt && go test -vet=off -count=1 ./$pkg/ > /tmp/sv-$id.base.log 2>&1 ); base=$?
( cd $wt && git apply "$src/patch.diff" ) || { echo "PATCH DOES NOT APPLY"; git -C /repo worktree remove --force $wt; exit 3; }
( cd $wt && go build ./... > /tmp/sv-$id.build.log 2>&1 ); build=$?
( cd $wt && go test -vet=off -count=1 ./$pkg/ > /tmp/sv-$id.mut.log 2>&1 ); mut=$?
rm "$wt/$pkg/zz_seed_demo_test.go"
( cd $wt && go test -vet=off -count=1 ./... > /tmp/sv-$id.suite.log 2>&1 ); suite=$?
git -C /repo worktree remove --force $wt
echo "confirm: demo-without-patch exit=$base (want 0), build=$build (want 0), demo-with-patch exit=$mut (want !=0), suite-with-patch exit=$suite (want 0)"
results=""
cd /repo && git apply "$src/patch.diff" || { echo "cannot apply to /repo"; exit 3; }
for c in "$@"; do
  out=$(cd /verif && timeout 2400 ./vcheck run $c -no-evidence 2>/dev/null | grep -E "^VIOLATION|^OK" | cut -c1-220 | head -4)
  echo "--- check $c:"; echo "$out"
  if echo "$out" | grep -q "^VIOLATION"; then results="$results $c:caught"; else results="$results $c:missed"; fi
done
cd /repo && git checkout -- . && git status --short | head -3
mkdir -p /verif/seeded/$id
cp "$src/patch.diff" /verif/seeded/$id/patch.diff
cp "$src/$demo" /verif/seeded/$id/$demo
[ -f "$src/notes.md" ] && cp "$src/notes.md" /verif/seeded/$id/notes.md
python3 - "$id" "$pkg" "$demo" "$base" "$build" "$mut" "$suite" "$results" <<'PY'
import json,sys
id,pkg,demo,base,build,mut,suite,results=sys.argv[1:9]
meta={"seed":id,"property":id.split('-')[0],"demo":demo,"demo_package_dir":pkg,
 "confirmed":{"demo_passes_without_patch":base=="0","builds_with_patch":build=="0","demo_fails_with_patch":mut!="0","existing_suite_passes_with_patch":suite=="0"},
 "checks_run":results.split(),"what_it_needs":"see notes.md","how_confirmed":"seedtest.sh: scratch worktree under /tmp, go test of the demo without/with patch, full suite with patch; then git apply to /repo, ./vcheck run <id> -no-evidence, git checkout -- ."}
json.dump(meta,open(f"/verif/seeded/{id}/meta.json","w"),indent=1)
PY
echo "RESULT $id:$results"
