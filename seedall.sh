#!/bin/bash
# Re-runs every seeded change under /verif/seeded against the current /repo HEAD:
# re-confirms it (demo passes without / fails with, suite passes with) and runs the check(s) of its property.
cd /verif
for d in seeded/*/; do
  id=$(basename $d)
  prop=${id%%-*}
  demo=$(python3 -c "import json;print(json.load(open('$d/meta.json'))['demo'])")
  pkg=$(python3 -c "import json;print(json.load(open('$d/meta.json'))['demo_package_dir'])")
  extra=""
  case $id in C06-b) extra="C02";; C16-b) extra="C09";; C20-b) extra="C01";; C03-a) extra="C08";; esac
  ./seedtest.sh $id /verif/$d $demo $pkg $prop $extra 2>&1 | grep -E "^confirm|^RESULT|PATCH|cannot apply" | cut -c1-200
done
