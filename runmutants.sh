#!/bin/bash
# Runs every one-line mutant of mutants.tsv against its check (quick tier); reports caught / MISSED / n.a.
# usage: ./runmutants.sh [check-id-filter]
cd /verif
filter="${1:-}"
while IFS=$'\t' read -r id file expr; do
  [ -z "$id" ] && continue
  [ -n "$filter" ] && [ "$id" != "$filter" ] && continue
  out=$(./mut.sh "$id" "$file" "$expr" 2>&1)
  if echo "$out" | grep -q "DID NOT APPLY\|DOES NOT COMPILE"; then verdict="n.a. ($(echo "$out" | grep -o 'DID NOT APPLY\|DOES NOT COMPILE'))";
  elif echo "$out" | grep -q "^VIOLATION"; then verdict="caught"; else verdict="MISSED"; fi
  printf "%-4s %-40s %s  :: %s\n" "$id" "$file" "$verdict" "$expr" | cut -c1-200
done < mutants.tsv
