#!/bin/bash
# usage: mut.sh <check-id> <file-in-repo> <sed-expr>  — apply a one-line mutation, run the check, revert
id="$1"; f="$2"; expr="$3"
cd /repo && sed -i "$expr" "$f" && if git diff --quiet; then echo "MUTATION DID NOT APPLY"; exit 3; fi
export GOFLAGS=-mod=mod GOPROXY=off GOSUMDB=off GOTOOLCHAIN=local
go build ./... || { echo "MUTANT DOES NOT COMPILE"; git checkout -- .; exit 3; }
cd /verif && timeout 1800 ./vcheck run "$id" -no-evidence 2>/dev/null | cut -c1-200 | grep -E "VIOLATION|KNOWN|OK " | head -5
echo "exit=${PIPESTATUS[0]}"
cd /repo && git checkout -- .
