#!/bin/bash
# usage: harvest.sh <worktree> <seed-id> <demo-rel-path> "<notes>"
# collects a sub-agent's change (git diff of tracked files) and demo from its scratch worktree into /var/tmp/seed-<id>, then removes the worktree
set -eu
wt=$1; id=$2; demo=$3; notes=$4
out=/var/tmp/seed-$id; rm -rf $out; mkdir -p $out
git -C $wt diff > $out/patch.diff
cp $wt/$demo $out/$(basename $demo)
printf '%s\n' "$notes" > $out/notes.md
git -C /repo worktree remove --force $wt
echo "$out: $(wc -l < $out/patch.diff) patch lines, demo $(basename $demo)"
